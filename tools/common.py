"""Shared machinery for the /verif checks: building /repo with hooks, running
the garden binary (CLI and verif-batch), running TLC, findings and evidence.

Exit code contract (see DESIGN.md §9): 0 held / only known findings,
1 with a VIOLATION line, 2 for tool errors (never believed as a verdict).
"""
import hashlib
import json
import os
import re
import shutil
import queue
import subprocess
import threading
import sys
import tempfile
import time
from concurrent.futures import ThreadPoolExecutor

VERIF = os.path.dirname(os.path.dirname(os.path.abspath(__file__)))
REPO = os.environ.get("VERIF_REPO", "/repo")
BUILD = os.environ.get("VERIF_BUILD_DIR") or os.path.join(VERIF, ".build")
TARGET = os.path.join(BUILD, "target")
GARDEN = os.path.join(TARGET, "debug", "garden")
SPEC = os.path.join(VERIF, "spec")
EVIDENCE = os.environ.get("VERIF_EVIDENCE_DIR") or os.path.join(VERIF, "evidence")
REPLAYS = os.path.join(os.environ["VERIF_EVIDENCE_DIR"], "replays") if os.environ.get("VERIF_EVIDENCE_DIR") else os.path.join(VERIF, "replays")
GUARD = "wilfred_garden_verif"
NCPU = min(16, os.cpu_count() or 4)


class ToolError(Exception):
    """The machinery itself failed; nothing is concluded about the property."""


def log(*a):
    print(*a, file=sys.stderr, flush=True)


# --------------------------------------------------------------------------
# build

_built = False


def build():
    """Build /repo's current working tree with the hooks enabled."""
    global _built
    if _built:
        return GARDEN
    os.makedirs(BUILD, exist_ok=True)
    env = dict(os.environ)
    env["CARGO_TARGET_DIR"] = TARGET
    env["RUSTFLAGS"] = f"--cfg {GUARD} --check-cfg cfg({GUARD})"
    env["CARGO_NET_OFFLINE"] = "true"
    t0 = time.time()
    # Serialise concurrent checks on the same target dir: cargo takes its own
    # lock, we only need to wait for it.
    p = subprocess.run(
        ["cargo", "build", "--offline", "--bin", "garden"],
        cwd=REPO, env=env, stdout=subprocess.PIPE, stderr=subprocess.STDOUT, text=True)
    if p.returncode != 0 or not os.path.exists(GARDEN):
        log(p.stdout[-4000:])
        raise ToolError("cargo build of /repo with hooks failed")
    log(f"[build] ok in {time.time() - t0:.1f}s")
    _built = True
    return GARDEN


def scratch_dir(tag="s"):
    base = os.path.join(BUILD, "scratch")
    os.makedirs(base, exist_ok=True)
    return tempfile.mkdtemp(prefix=f"{tag}-{os.getpid()}-", dir=base)


# --------------------------------------------------------------------------
# running garden


def limited(argv, gb=None):
    """argv run with a bounded address space: a non-terminating allocation in
    the code under test must kill that child, not the machine.  Done by a
    shell `ulimit` + exec rather than a preexec_fn: with a preexec_fn Python
    has to fork() the whole (large) checker process for every child, which
    serialises the worker threads; without one it can vfork."""
    gb = gb or int(os.environ.get("VERIF_GARDEN_AS_GB", "6"))
    return ["/bin/sh", "-c", f'ulimit -v {gb << 20}; exec "$0" "$@"'] + list(argv)


def garden(args, input=None, timeout=30, cwd=None, env=None, _second=False):
    """Run the garden CLI. Returns (returncode, stdout, stderr); returncode is
    None on timeout. Negative returncode = killed by signal.  A run that times
    out is repeated once with three times the allowance before it is reported
    as a timeout: on a loaded machine a stalled process must not be taken for
    a hang of the code under test."""
    e = dict(os.environ)
    e.pop("GARDEN_VERIF_INTERRUPT_AT", None)
    e.pop("GARDEN_VERIF_SCHED_SEED", None)
    if env:
        e.update(env)
    try:
        kw = {"input": input} if input is not None else {"stdin": subprocess.DEVNULL}
        p = subprocess.run(limited([GARDEN] + list(args)), cwd=cwd, env=e,
                           stdout=subprocess.PIPE, stderr=subprocess.PIPE,
                           timeout=timeout, **kw)
        return p.returncode, p.stdout.decode("utf-8", "replace"), p.stderr.decode("utf-8", "replace")
    except subprocess.TimeoutExpired as ex:
        if not _second:
            return garden(args, input=input, timeout=timeout * 3, cwd=cwd, env=env, _second=True)
        out = (ex.stdout or b"").decode("utf-8", "replace")
        err = (ex.stderr or b"").decode("utf-8", "replace")
        return None, out, err


def is_crash(rc):
    """Process-level crash: Rust panic (101), abort (134 / SIGABRT), signals."""
    return rc is not None and (rc == 101 or rc == 134 or rc < 0 or rc >= 128)


def pmap(fn, items, workers=NCPU):
    if not items:
        return []
    with ThreadPoolExecutor(max_workers=workers) as ex:
        return list(ex.map(fn, items))


def _batch_chunk(mode, recs, timeout_per, env, cwd=None):
    """Run one verif-batch process over recs; restart after a process-level
    death or a stalled record so that every record gets an answer.  The
    process is watched line by line: a record that produces no answer within
    its allowance is reported as `timeout` and the rest is resumed."""
    results = []
    i = 0
    d = scratch_dir("batch")
    e = dict(os.environ)
    e.pop("GARDEN_VERIF_INTERRUPT_AT", None)
    e.pop("GARDEN_VERIF_SCHED_SEED", None)
    if env:
        e.update(env)
    stall = max(5.0, timeout_per * 4)
    try:
        while i < len(recs):
            path = os.path.join(d, f"in{i}.ndjson")
            with open(path, "w") as f:
                for r in recs[i:]:
                    f.write(json.dumps(r) + "\n")
            errf = open(os.path.join(d, "stderr"), "wb")
            p = subprocess.Popen(limited([GARDEN, "verif-batch", mode, path]), cwd=cwd, env=e, stdin=subprocess.DEVNULL,
                                 stdout=subprocess.PIPE, stderr=errf)
            q = queue.Queue()

            def pump(out=p.stdout, q=q):
                for line in out:
                    q.put(line)
                q.put(None)
            th = threading.Thread(target=pump, daemon=True)
            th.start()
            got = 0
            outcome = None
            while i + got < len(recs):
                try:
                    line = q.get(timeout=stall)
                except queue.Empty:
                    outcome = "timeout"
                    break
                if line is None:
                    outcome = "died"
                    break
                try:
                    results.append(json.loads(line.decode("utf-8", "replace")))
                    got += 1
                except ValueError:
                    outcome = "died"
                    break
            p.kill()
            rc = p.wait()
            th.join(timeout=5)
            errf.close()
            i += got
            if i < len(recs) and outcome is not None:
                with open(os.path.join(d, "stderr"), "rb") as ef:
                    err = ef.read()[-300:].decode("utf-8", "replace")
                if outcome == "timeout":
                    # a stall under load is not a verdict: the record is run again on its own, generously
                    one = os.path.join(d, "one.ndjson")
                    with open(one, "w") as f:
                        f.write(json.dumps(recs[i]) + "\n")
                    rc1, out1, err1 = garden(["verif-batch", mode, one], timeout=max(30.0, stall * 6), env=env, cwd=cwd)
                    try:
                        results.append(json.loads(out1.strip().split("\n")[0]))
                        i += 1
                        continue
                    except (ValueError, IndexError):
                        if rc1 is not None:
                            outcome, rc, err = "died", rc1, err1[-300:]
                results.append({"outcome": outcome, "rc": None if outcome == "timeout" else rc,
                                "stderr_tail": err, "id": recs[i].get("id")})
                i += 1
        return results
    finally:
        shutil.rmtree(d, ignore_errors=True)


def batch(mode, recs, timeout_per=2.0, env=None, chunk=None, cwd=None):
    """Run records through `garden verif-batch <mode>` in parallel; results are
    returned in input order."""
    recs = list(recs)
    if not recs:
        return []
    if chunk is None:
        chunk = max(1, min(400, (len(recs) + NCPU - 1) // NCPU))
    chunks = [recs[i:i + chunk] for i in range(0, len(recs), chunk)]
    outs = pmap(lambda c: _batch_chunk(mode, c, timeout_per, env, cwd), chunks)
    res = [r for o in outs for r in o]
    if len(res) != len(recs):
        raise ToolError(f"verif-batch {mode}: {len(res)} answers for {len(recs)} records")
    return res


def run_program(src, timeout=20, cwd=None, sub="run", extra=(), env=None, name="p.gdn"):
    """Run a program through the plain CLI (the oracle of record)."""
    d = scratch_dir("run")
    try:
        path = os.path.join(d, name)
        with open(path, "w") as f:
            f.write(src)
        return garden([sub] + list(extra) + [path], timeout=timeout, cwd=cwd or d, env=env)
    finally:
        shutil.rmtree(d, ignore_errors=True)


def json_session(requests, timeout=30, env=None):
    """Run a list of request dicts through `reftest-json-session`; returns
    (rc, [response objects], stderr)."""
    d = scratch_dir("js")
    try:
        path = os.path.join(d, "s.json")
        with open(path, "w") as f:
            for r in requests:
                f.write(json.dumps(r) + "\n")
        rc, out, err = garden(["reftest-json-session", path], timeout=timeout, env=env, cwd=d)
        return rc, parse_json_stream(out), err
    finally:
        shutil.rmtree(d, ignore_errors=True)


def parse_json_stream(s):
    dec = json.JSONDecoder()
    i, n, res = 0, len(s), []
    while i < n:
        while i < n and s[i].isspace():
            i += 1
        if i >= n:
            break
        try:
            o, j = dec.raw_decode(s, i)
        except ValueError:
            res.append({"unparsed": s[i:i + 200]})
            break
        res.append(o)
        i = j
    return res


# --------------------------------------------------------------------------
# TLC

_SUMMARY = re.compile(r"(\d+) states generated, (\d+) distinct states found")
_SIMSUM = re.compile(r"(\d+) states checked")


class TlcResult:
    def __init__(self):
        self.rc = None
        self.out = ""
        self.generated = 0
        self.distinct = 0
        self.depth = 0
        self.printed = {}      # tag -> list of python values
        self.error = None      # None | invariant | property | deadlock | assumption | eval | timeout | parse
        self.violated = None
        self.wall = 0.0
        self.coverage = {}     # action name -> count (when -coverage)

    def tag(self, t):
        return self.printed.get(t, [])


def _parse_printed(out, res):
    """Collect `<<"TAG", "json">>` tuples printed with PrintT (possibly
    wrapped over several lines by TLC's pretty printer)."""
    lines = out.split("\n")
    i = 0
    n = len(lines)
    pat = re.compile(r'^<<"([A-Z_]+)",\s*"(.*)">>$', re.S)
    while i < n:
        l = lines[i]
        if l.startswith('<<"'):
            buf = l
            j = i
            while not buf.rstrip().endswith('">>') and j + 1 < n and j - i < 50:
                j += 1
                nxt = lines[j].strip()
                # TLC breaks tuples after the comma: `<<"TAG",\n  "..." >>`
                buf = buf.rstrip() + (" " if buf.rstrip().endswith(",") else "") + nxt
            buf = re.sub(r'"\s*>>$', '">>', buf.rstrip())
            m = pat.match(buf)
            if m:
                try:
                    inner = json.loads('"' + m.group(2) + '"')
                    val = json.loads(inner)
                    res.printed.setdefault(m.group(1), []).append(val)
                except ValueError:
                    res.printed.setdefault("UNPARSED", []).append(buf[:300])
                i = j + 1
                continue
        i += 1


def tlc(module, cfg=None, env=None, workers=8, timeout=900, simulate=None, depth=None,
        coverage=False, dfs=False, heap="4g", seed=None, tag=None, extra=()):
    """Run TLC on spec/<module>.tla with spec/<cfg>. Returns a TlcResult; tool
    level failures (parse errors, TLC evaluation errors, timeouts) are
    reported in .error and turned into ToolError by callers that need a
    verdict."""
    cfg = cfg or (module + ".cfg")
    tag = tag or f"{module}-{os.getpid()}-{int(time.time() * 1000) % 100000}"
    metadir = os.path.join(BUILD, "tlc", tag)
    os.makedirs(metadir, exist_ok=True)
    e = dict(os.environ)
    opts = "-Xss1g -Dfile.encoding=UTF-8 -Dsun.jnu.encoding=UTF-8"
    if dfs:
        opts += " -Dtlc2.tool.queue.IStateQueue=StateDeque"
    e["JAVA_TOOL_OPTIONS"] = opts
    if env:
        e.update({k: str(v) for k, v in env.items()})
    # -Xss must be on the command line: the launcher sizes the main thread (which
    # computes the initial states) before JAVA_TOOL_OPTIONS is read.
    cmd = ["java", "-Xss1g", "-XX:+UseParallelGC", f"-Xmx{heap}", "-cp",
           "/opt/veriftools/tla/tla2tools.jar:/opt/veriftools/tla/CommunityModules-deps.jar",
           "tlc2.TLC", "-workers", str(workers), "-metadir", metadir, "-cleanup",
           "-noGenerateSpecTE", "-config", cfg]
    if simulate is not None:
        cmd += ["-simulate", f"num={simulate}"]
        if seed is not None:
            cmd += ["-seed", str(seed)]
    if depth is not None:
        cmd += ["-depth", str(depth)]
    if coverage:
        cmd += ["-coverage", "1"]
    cmd += list(extra)
    cmd += [module + ".tla"]
    res = TlcResult()
    t0 = time.time()
    try:
        p = subprocess.run(cmd, cwd=SPEC, env=e, stdout=subprocess.PIPE,
                           stderr=subprocess.STDOUT, timeout=timeout)
        res.rc = p.returncode
        res.out = p.stdout.decode("utf-8", "replace")
    except subprocess.TimeoutExpired as ex:
        res.out = (ex.stdout or b"").decode("utf-8", "replace")
        res.error = "timeout"
    finally:
        shutil.rmtree(metadir, ignore_errors=True)
    res.wall = time.time() - t0
    out = res.out
    for m in _SUMMARY.finditer(out):
        res.generated, res.distinct = int(m.group(1)), int(m.group(2))
    m = re.search(r"The depth of the complete state graph search is (\d+)", out)
    if m:
        res.depth = int(m.group(1))
    if simulate is not None:
        m = _SIMSUM.search(out)
        if m:
            res.generated = res.distinct = int(m.group(1))
    _parse_printed(out, res)
    if coverage:
        for m in re.finditer(r"<(\w+) line \d+, col \d+ to line \d+, col \d+ of module (\w+)>: (\d+):(\d+)", out):
            res.coverage[m.group(1)] = res.coverage.get(m.group(1), 0) + int(m.group(4))
    if res.error is None:
        if "Invariant " in out and " is violated" in out:
            res.error = "invariant"
            m = re.search(r"Invariant (\S+) is violated", out)
            res.violated = m.group(1) if m else None
        elif "Action property" in out and "is violated" in out:
            res.error = "property"
            m = re.search(r"Action property (\S+) is violated", out)
            res.violated = m.group(1) if m else None
        elif "Temporal properties were violated" in out:
            res.error = "property"
        elif "Deadlock reached" in out:
            res.error = "deadlock"
        elif "Assumption" in out and "is false" in out:
            res.error = "assumption"
        elif re.search(r"The postcondition.*(false|violated)", out, re.S) or "Postcondition" in out and "violated" in out:
            res.error = "postcondition"
        elif "Parsing or semantic analysis failed" in out or "*** Errors:" in out or "Semantic errors" in out:
            res.error = "parse"
        elif res.rc not in (0,) or "Error:" in out:
            res.error = "eval"
    return res


def tlc_ok(res, what):
    """Raise ToolError unless the TLC run completed without any error."""
    if res.error is not None:
        errs = [l for l in res.out.split("\n") if l.startswith("Error:") or "Exception" in l or "was violated" in l]
        log("\n".join(errs[:12]))
        log(res.out[-3000:])
        raise ToolError(f"TLC {what}: {res.error} {res.violated or ''} {' | '.join(errs[:2])[:300]}")
    return res


def write_ndjson(path, recs):
    with open(path, "w") as f:
        for r in recs:
            f.write(json.dumps(r, ensure_ascii=True) + "\n")


# --------------------------------------------------------------------------
# findings / evidence / exit


def known_findings():
    path = os.path.join(VERIF, "known_findings.json")
    if not os.path.exists(path):
        return []
    with open(path) as f:
        return json.load(f).get("findings", [])


class Check:
    """Collects the outcome of one check run and produces evidence + exit."""

    def __init__(self, prop, level, tier, seed):
        self.prop = prop
        self.level = level
        self.tier = tier
        self.seed = seed
        self.t0 = time.time()
        self.cov = {"evaluations": 0, "distinct_nontrivial": 0, "samples": [],
                    "states": 0, "transitions": 0, "traces_validated_against_impl": 0}
        self.assumptions = []
        self.violations = []     # (key, description, replay dict)
        self.known_hits = {}     # key -> description
        self._known = [k for k in known_findings() if k.get("property") == prop and k.get("status", "open") == "open"]
        self._nontrivial = set()

    # -- counting
    def add_tlc(self, res):
        self.cov["states"] += res.distinct
        self.cov["transitions"] += max(res.generated, 0)

    def evaluated(self, n=1):
        self.cov["evaluations"] += n

    def validated(self, n=1):
        self.cov["traces_validated_against_impl"] += n

    def nontrivial(self, key):
        self._nontrivial.add(key if isinstance(key, str) else json.dumps(key, sort_keys=True))

    def sample(self, s, limit=5):
        if len(self.cov["samples"]) < limit:
            self.cov["samples"].append(s)

    # -- verdicts
    def fail(self, key, desc, replay):
        """Report a property violation observed on the real binary. `key` is a
        stable identifier of the failing input class, matched against
        known_findings.json (regex in 'match', else exact 'key')."""
        for k in self._known:
            pat = k.get("match")
            if (pat and re.search(pat, key)) or k.get("key") == key:
                self.known_hits.setdefault(k.get("key", pat), (k.get("what", desc), key))
                return False
        self.violations.append((key, desc, replay))
        return True

    def finish(self, rule, exhaustive=None, extra=None):
        os.makedirs(EVIDENCE, exist_ok=True)
        self.cov["distinct_nontrivial"] = len(self._nontrivial)
        self.cov["rule"] = rule
        if exhaustive is not None:
            self.cov["exhaustive"] = exhaustive
        if extra:
            self.cov.update(extra)
        if not self.cov["samples"]:
            self.cov["samples"] = ["<none>"]
        if self.level != "model_checking":
            for k in ("states", "transitions", "traces_validated_against_impl"):
                if not self.cov[k]:
                    self.cov.pop(k)
        ev = {
            "property_id": self.prop, "tier": self.tier, "seed": self.seed,
            "level": self.level, "coverage": self.cov, "assumptions": self.assumptions,
            "wall_s": round(time.time() - self.t0, 2), "violations": len(self.violations),
            "known_findings_hit": sorted(self.known_hits.keys()),
        }
        with open(os.path.join(EVIDENCE, f"{self.prop}.json"), "w") as f:
            json.dump(ev, f, indent=1, ensure_ascii=True)
        for kk, (what, key) in sorted(self.known_hits.items()):
            print(f"KNOWN-FINDING: property={self.prop} {what} [{kk}]")
        if self.violations:
            os.makedirs(os.path.join(REPLAYS, self.prop), exist_ok=True)
            seen = set()
            if os.environ.get("VERIF_SUMMARY"):
                import collections
                cnt = collections.Counter(" ".join(k.split()[:3])[:60] for k, _, _ in self.violations)
                for k, n in cnt.most_common(30):
                    print(f"SUMMARY {n:6d} {k}")
            for key, desc, replay in self.violations[:20]:
                h = hashlib.sha1(key.encode()).hexdigest()[:12]
                if h in seen:
                    continue
                seen.add(h)
                path = os.path.join(REPLAYS, self.prop, f"{h}.json")
                with open(path, "w") as f:
                    json.dump({"property": self.prop, "key": key, "what": desc, "replay": replay}, f, indent=1)
                print(f"VIOLATION property={self.prop} replay={path}")
                print(f"  {desc[:300]}")
            return 1
        c = self.cov
        print(f"OK property={self.prop} tier={self.tier} evaluations={c.get('evaluations')} "
              f"nontrivial={c.get('distinct_nontrivial')} states={c.get('states', 0)} "
              f"validated={c.get('traces_validated_against_impl', 0)} wall={ev['wall_s']}s")
        return 0


def vacuity(cond, what):
    if not cond:
        raise ToolError("vacuous run: " + what)
