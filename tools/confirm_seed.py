#!/usr/bin/env python3
"""Development aid: confirm a seeded change in a scratch worktree of /repo
(outside /repo and /verif): it applies, builds, passes the existing test
suite, and its demonstration differs with the change and not without it.
usage: confirm_seed.py <name> <patch> <demo-cmd...>   (demo cmd run in the worktree; {G} = garden binary)
Writes /verif/.build/confirm/<name>.json"""
import json
import os
import shutil
import subprocess
import sys

WT = "/tmp/wt/confirm"


def sh(cmd, cwd=None, env=None, timeout=1800):
    p = subprocess.run(cmd, shell=True, cwd=cwd, env=env, capture_output=True, text=True, timeout=timeout)
    return p.returncode, p.stdout, p.stderr


def suite():
    for attempt in range(3):
        rc, out, err = sh("cargo nextest run --workspace --no-fail-fast --offline --test-threads 6 2>&1 | tail -5", cwd=WT)
        if "109 passed" in out:
            return True, out[-300:]
    return False, out[-600:]


def main():
    name, patch = sys.argv[1], os.path.abspath(sys.argv[2])
    demo = " ".join(sys.argv[3:])
    if not os.path.exists(WT):
        sh(f"git -C /repo worktree add -q --detach {WT} HEAD")
        sh(f"cp -r /repo/target {WT}/target")
    sh("git checkout -q --detach && git reset -q --hard", cwd=WT)
    head = sh("git -C /repo rev-parse HEAD")[1].strip()
    sh(f"git checkout -q --detach {head}", cwd=WT)
    res = {"name": name, "head": head}
    G = os.path.join(WT, "target/debug/garden")
    rc, out, err = sh("cargo build --offline 2>&1 | tail -2", cwd=WT)
    rc0, out0, err0 = sh(demo.replace("{G}", G), cwd=WT)
    res["demo_without"] = (out0 + err0)[-1500:]
    a = sh(f"git apply {patch} || git apply --3way {patch}", cwd=WT)
    res["applies"] = a[0] == 0
    if a[0] == 0:
        rc, out, err = sh("cargo build --offline 2>&1 | tail -3", cwd=WT)
        res["builds"] = "Finished" in out
        ok, tail = suite()
        res["suite_passes"] = ok
        res["suite_tail"] = tail
        rc1, out1, err1 = sh(demo.replace("{G}", G), cwd=WT)
        res["demo_with"] = (out1 + err1)[-1500:]
        res["demo_differs"] = (out1 + err1) != (out0 + err0)
    sh("git reset -q --hard", cwd=WT)
    os.makedirs("/verif/.build/confirm", exist_ok=True)
    json.dump(res, open(f"/verif/.build/confirm/{name}.json", "w"), indent=1)
    print(json.dumps({k: v for k, v in res.items() if k not in ("demo_without", "demo_with", "suite_tail")}))


if __name__ == "__main__":
    main()
