"""Pool of Garden values with literal syntax, as JSON for spec/Display.tla and
as Garden source (two independent construction routes), for C12 / C13."""
import itertools

ALPHA = ["a", '"', "\\", "\n", "\t", " ", "\u00e9", "\U0001F600", "{"]
# Q has P's fields, R3 has them as a prefix: values of different types are never equal, whatever their fields
PRE = ("struct P { x: Int, y: String }\nstruct Q { x: Int, y: String }\nstruct R3 { x: Int, y: String, z: Int }\n"
       "enum E2 { V1, V2(Int), W1(String) }\n")


def S(s):
    return {"k": "Str", "cs": [ord(c) for c in s]}


def I(n):
    return {"k": "Int", "v": str(n)}


def F(t):
    return {"k": "Float", "v": t}


def L(*xs):
    return {"k": "List", "xs": list(xs)}


def T(*xs):
    return {"k": "Tuple", "xs": list(xs)}


def D(pairs):
    pairs = sorted(pairs, key=lambda kv: kv[0])
    return {"k": "Dict", "ks": [[ord(c) for c in k] for k, _ in pairs], "vs": [v for _, v in pairs]}


def E(n, p=None):
    return {"k": "Enum", "n": n, "has": p is not None, "p": p if p is not None else {"k": "None"}}


def ST(x, y):
    return {"k": "Struct", "n": "P", "fs": ["x", "y"], "vs": [x, y]}


def STQ(x, y):
    return {"k": "Struct", "n": "Q", "fs": ["x", "y"], "vs": [x, y]}


def STR3(x, y, z):
    return {"k": "Struct", "n": "R3", "fs": ["x", "y", "z"], "vs": [x, y, z]}


def strings(maxlen):
    out = [""]
    for n in range(1, maxlen + 1):
        for t in itertools.product(ALPHA, repeat=n):
            out.append("".join(t))
    return out


def leaves():
    ints = [0, -1, 42, 9223372036854775807, -9223372036854775808]
    out = [I(n) for n in ints] + [F("1.5"), F("-0.25"), F("100.0")]
    # floats far from 1: the printed form must stay positional (Garden has no exponent syntax)
    out += [F("1000000000000000000000.0"), F("10000000000000000.0"), F("0.00001"), F("0.000025"), F("123456789.125")]
    out += [S(s) for s in ["", "a", '"', "\\", "a\\", "\n", "x\ty", "\u00e9\U0001F600", "{x}", '\\"', 'a"b', "\\n"]]
    out += [E("True"), E("False"), E("Unit"), E("None")]
    return out


def containers(vals, small):
    out = []
    for v in vals:
        out += [L(v), T(v), E("Some", v), E("Ok", v), E("Err", v), D([("k", v)])]
    for a, b in small:
        out += [L(a, b), T(a, b), D([("a", a), ("b", b)]), T(a, b, a)]
    out += [L(), T(), D([]), ST(I(1), S("s")), ST(I(-5), S('q"\\')), E("V1"), E("V2", I(3)), E("W1", S("w"))]
    out += [STQ(I(1), S("s")), STR3(I(1), S("s"), I(0)), STQ(I(-5), S('q"\\'))]
    return out


def pool(tier):
    lv = leaves()
    strs = [v for v in lv if v["k"] == "Str"]
    enums = [v for v in lv if v["k"] == "Enum"]
    small = [(lv[0], lv[1]), (strs[0], strs[1]), (lv[5], lv[2]), (enums[0], enums[3]), (strs[2], strs[3])]
    c1 = containers(lv, small)
    deep_src = c1[:: (7 if tier == "quick" else 2)]
    c2 = containers(deep_src, [(c1[0], c1[1]), (c1[6], c1[13])])
    return lv + c1 + c2


# ---------------------------------------------------------------- rendering


def lit_str(s):
    return '"' + s.replace("\\", "\\\\").replace('"', '\\"').replace("\n", "\\n").replace("\t", "\\t") + '"'


def text(cs):
    return "".join(chr(c) for c in cs)


def src(v):
    """Garden source constructing v (literal route)."""
    k = v["k"]
    if k == "Int":
        return v["v"]
    if k == "Float":
        return v["v"]
    if k == "Str":
        return lit_str(text(v["cs"]))
    if k == "List":
        return "[" + ", ".join(src(x) for x in v["xs"]) + "]"
    if k == "Tuple":
        return "(" + ", ".join(src(x) for x in v["xs"]) + ("," if len(v["xs"]) == 1 else "") + ")"
    if k == "Dict":
        return "Dict[" + ", ".join(lit_str(text(kk)) + " => " + src(x) for kk, x in zip(v["ks"], v["vs"])) + "]"
    if k == "Enum":
        return v["n"] + ("(" + src(v["p"]) + ")" if v["has"] else "")
    if k == "Struct":
        return v["n"] + "{ " + ", ".join(f + ": " + src(x) for f, x in zip(v["fs"], v["vs"])) + " }"
    raise ValueError(k)


def src_alt(v):
    """A separately built equal value: different construction route."""
    k = v["k"]
    if k == "Int":
        n = int(v["v"])
        if abs(n) < 1000:
            return f"({n + 7} - 7)"
        return f"({v['v']} + 0)"
    if k == "Float":
        return f"({v['v']} +. 0.0)"
    if k == "Str":
        s = text(v["cs"])
        if len(s) >= 2:
            return "(" + lit_str(s[:1]) + " ^ " + lit_str(s[1:]) + ")"
        return '("" ^ ' + lit_str(s) + ")"
    if k == "List":
        out = "[]"
        for x in v["xs"]:
            out += ".append(" + src_alt(x) + ")"
        if not v["xs"]:
            return "[1].slice(0, 0)"
        return out
    if k == "Tuple":
        return "(" + ", ".join(src_alt(x) for x in v["xs"]) + ("," if len(v["xs"]) == 1 else "") + ")"
    if k == "Dict":
        out = "Dict[]"
        for kk, x in reversed(list(zip(v["ks"], v["vs"]))):
            out += ".set(" + lit_str(text(kk)) + ", " + src_alt(x) + ")"
        return out
    if k == "Enum":
        return v["n"] + ("(" + src_alt(v["p"]) + ")" if v["has"] else "")
    if k == "Struct":
        # the same struct value written with its fields in the opposite order
        return v["n"] + "{ " + ", ".join(f + ": " + src_alt(x) for f, x in reversed(list(zip(v["fs"], v["vs"])))) + " }"
    raise ValueError(k)
