"""Shared by the refactoring checks (C16, C19-C22).  The behavioural oracle is
spec/Ref.tla: TLC evaluates the reference semantics on the ORIGINAL generated
program; a behaviour-preserving refactoring of it, run by the real
interpreter, must print what the reference prints and end the same way."""
import os
import shutil

from common import ToolError, batch, garden, pmap, scratch_dir
import gen_prog
import refrun


def originals(seed, n, size=5, err_rate=0.0, features=None, only_ok=True):
    """-> (tlc result, [(prog, src, expectation)]) for generated programs; with
    only_ok, those the reference runs to completion."""
    progs, srcs = refrun.gen_programs(seed, n, size, err_rate=err_rate, features=features)
    tres, exp = refrun.ref_expect(progs)
    out = []
    for p in progs:
        e = exp[p["id"]]
        if e["outcome"] in ("fuel", "big"):
            continue
        if only_ok and e["outcome"] != "ok":
            continue
        out.append((p, srcs[p["id"]], e))
    return tres, out


def nodes(prog, pred):
    found = []

    def visit(n):
        if isinstance(n, dict):
            if "k" in n and pred(n):
                found.append(n)
            for v in n.values():
                visit(v)
        elif isinstance(n, list):
            for x in n:
                visit(x)
    visit(prog["funs"])
    visit(prog.get("meths", []))
    visit(prog["main"])
    return found


def has_kind(n, kinds):
    hit = []

    def visit(x):
        if isinstance(x, dict):
            if x.get("k") in kinds:
                hit.append(1)
            for v in x.values():
                visit(v)
        elif isinstance(x, list):
            for y in x:
                visit(y)
    visit(n)
    return bool(hit)


def cli(jobs, workers=12):
    """jobs: [(args after the file, src)] with the literal "FILE" standing for the path.
    -> [(returncode, stdout, stderr)]"""
    d = scratch_dir("rf")
    try:
        def one(j):
            i, (args, src) = j
            p = os.path.join(d, f"p{i}.gdn")
            with open(p, "w", encoding="utf-8") as f:
                f.write(src)
            return garden([a if a != "FILE" else p for a in args], timeout=60, cwd=d)
        return pmap(one, list(enumerate(jobs)), workers=workers)
    finally:
        shutil.rmtree(d, ignore_errors=True)


def run_all(srcs, tick_limit=400000):
    return batch("run", [{"id": i, "src": s, "tick_limit": tick_limit} for i, s in enumerate(srcs)], timeout_per=4.0)


def same_behaviour(exp, real, stderr_free=False):
    """None if the real run of a refactored program matches the reference
    expectation of the original, else a description."""
    if real.get("outcome") in ("panic", "died", "timeout"):
        return f"the interpreter crashed: {real.get('panic') or real.get('stderr_tail')}"
    if exp["outcome"] != real.get("outcome"):
        return f"ends with {real.get('outcome')} ({str(real.get('message'))[:80]}), the original ends with {exp['outcome']}"
    if exp["out"] != real.get("stdout"):
        return f"prints {real.get('stdout', '')[-80:]!r}, the original prints {exp['out'][-80:]!r}"
    if exp["outcome"] == "ok" and exp.get("value") not in ("", None) and real.get("value") is not None and real.get("value") != exp["value"]:
        return f"ends with the value {real.get('value')}, the original with {exp['value']}"
    return None
