"""The built-in call matrix: enumerated by TLC from spec/Builtins.tla and
rendered to concrete Garden source here."""
from common import tlc, tlc_ok

# one concrete Garden expression per argument kind
VALUE = {
    "Int": "3", "IntMin": "(0 - 9223372036854775807 - 1)", "IntMax": "9223372036854775807",
    "String": '"ab"', "Bool": "True", "Float": "1.5", "Unit": "Unit",
    "ListInt": "[1, 2]", "ListString": '["a", "b"]', "Tuple": '("a", 1)',
    "Dict": 'Dict["k" => 1]', "None": "None", "Some": "Some(1)",
    "Closure": "fun(x) { x }", "Path": 'Path{ p: "verif_no_such_file" }',
    "Struct": 'PathInfo{ is_file: True, is_directory: False, is_symlink: False, size: 0 }',
}
IMPORTS = {"fs": 'import "__fs.gdn" as fs\n', "shell": 'import "__shell.gdn" as shell\n',
           "random": 'import "__random.gdn" as random\n', "time": 'import "__time.gdn" as time\n'}


def call_matrix():
    res = tlc("Builtins", workers=1, timeout=300)
    tlc_ok(res, "Builtins")
    calls = res.tag("CALL")
    return res, calls


def render_call(c):
    """(prelude source (imports), call expression)"""
    args = ", ".join(VALUE[k] for k in c["args"])
    if c["recv"]:
        expr = f"{VALUE[c['recv']]}.{c['n']}({args})"
        pre = ""
    elif c["ns"]:
        expr = f"{c['ns']}::{c['n']}({args})"
        pre = IMPORTS[c["ns"]]
    else:
        expr = f"{c['n']}({args})"
        pre = ""
    return pre, expr


def call_key(c):
    return f"{c['ns'] + '::' if c['ns'] else ''}{c['recv'] + '.' if c['recv'] else ''}{c['n']}({','.join(c['args'])})"
