"""Seeded generator of Garden core-language programs.

Each program is produced twice from the same tree: Garden source text (one
simple statement per line, so that line numbers identify statements) and the
JSON AST that spec/Ref.tla and spec/Machine.tla read.  This file contains NO
evaluator: expected results come only from TLC evaluating the specification.

AST node kinds (every node has k, line, id):
 int str bool unit var let set upd bin list tuple ctor if while for break
 continue ret lam call mcall match show print throw assert paren
 watch (C27 marker), and with feature "ext": slit (struct literal) dot (field
 access) letd / ford (tuple destructuring in let / for) try
 with feature "ext2": dlit (dictionary literal), user-defined methods
 (prog["meths"], called by mcall), prelude methods and functions (first last
 is_empty is_non_empty contains concat index_of enumerate map filter is_some
 is_none or_value / range max min not sort_nums), dictionary methods
 with feature "ext3": string methods (contains starts_with ends_with index_of
 substring trim* strip_* split chars join)
"""
import json
import random

INT, BOOL, STR, LIST, OPT, ENUM, UNIT = "Int", "Bool", "String", "List<Int>", "Option<Int>", "E1", "Unit"
STRUCT = "P1"          # struct P1 { x: Int, y: String } (feature "ext")
DICT = "Dict<Int>"     # feature "ext2"
RECV_NAME = {INT: "Int", STR: "String", LIST: "List", OPT: "Option", ENUM: "E1", STRUCT: "P1", DICT: "Dict"}
STR_POOL = ["a", "b", "ab", "x y", "", "q"]


class Gen:
    def __init__(self, seed, size=12, err_rate=0.25, features=None):
        self.r = random.Random(seed)
        self.size = size
        self.err_rate = err_rate
        self.nid = 0
        self.nvar = 0
        self.funs = []           # {n, ps, pt, rt, b, line}
        self.fun_sigs = {}       # name -> (param types, ret type)
        self.features = features or {}
        self.uses_enum = False
        self.uses_struct = False
        self.in_fun = None
        self.has_tracer = False
        self.meths = []          # {n, recv, this, tt, ps, pt, rt, b, line}  (feature "ext2")
        self.meth_sigs = {}      # name -> (receiver type, param types, ret type)

    # ---- helpers
    def node(self, k, **kw):
        self.nid += 1
        d = {"k": k, "line": 0, "id": self.nid}
        d.update(kw)
        return d

    def fresh(self, prefix="v"):
        self.nvar += 1
        return f"{prefix}{self.nvar}"

    def pick_var(self, scope, ty):
        c = [n for (n, t) in scope if t == ty]
        # innermost binding of a name wins: drop shadowed entries
        seen, res = set(), []
        for (n, t) in reversed(scope):
            if n in seen:
                continue
            seen.add(n)
            if t == ty:
                res.append(n)
        return self.r.choice(res) if res else None

    # ---- expressions
    def expr(self, ty, scope, d=0):
        r = self.r
        if ty == INT:
            return self.int_expr(scope, d)
        if ty == BOOL:
            return self.bool_expr(scope, d)
        if ty == STR:
            if self.features.get("ext") and d < 2 and r.random() < 0.08:
                return self.node("dot", e=self.expr(STRUCT, scope, d + 1), f="y")
            if self.features.get("ext3") and d < 2 and r.random() < 0.3:
                k = r.randint(0, 3)
                if k == 0:
                    a = r.randint(0, 2)
                    return self.node("mcall", m="substring", recv=self.expr(STR, scope, d + 1), args=[self.node("int", v=a), self.node("int", v=a + r.randint(0, 3))])
                if k == 1:
                    return self.node("mcall", m=r.choice(["trim", "trim_left", "trim_right"]), recv=self.expr(STR, scope, d + 1), args=[])
                if k == 2:
                    return self.node("mcall", m=r.choice(["strip_prefix", "strip_suffix"]), recv=self.expr(STR, scope, d + 1), args=[self.expr(STR, scope, d + 1)])
                return self.node("mcall", m="join", recv=self.node("str", v=r.choice(STR_POOL)), args=[self.str_list(scope, d + 1)])
            v = self.pick_var(scope, STR)
            c = r.random()
            if v and c < 0.4:
                return self.node("var", n=v)
            if d < 2 and c < 0.6:
                return self.paren(self.node("bin", op="^", l=self.expr(STR, scope, d + 1), r=self.expr(STR, scope, d + 1)))
            return self.node("str", v=r.choice(STR_POOL))
        if ty == LIST:
            if self.features.get("ext2") and d < 2 and r.random() < 0.2:
                k = r.randint(0, 4)
                if k == 0:
                    return self.node("mcall", m="concat", recv=self.expr(LIST, scope, d + 1), args=[self.expr(LIST, scope, d + 1)])
                if k == 1:
                    a = r.randint(0, 3)
                    return self.node("call", f=self.node("var", n="range"), args=[self.node("int", v=a), self.node("int", v=a + r.randint(-1, 4))])
                if k == 2:
                    return self.node("call", f=self.node("var", n="sort_nums"), args=[self.expr(LIST, scope, d + 1)])
                return self.node("mcall", m="map" if k == 3 else "filter", recv=self.expr(LIST, scope, d + 1),
                                 args=[self.inline_lam(scope, INT if k == 3 else BOOL)])
            v = self.pick_var(scope, LIST)
            c = r.random()
            if v and c < 0.4:
                return self.node("var", n=v)
            if d < 2 and c < 0.55:
                return self.node("mcall", m="append", recv=self.expr(LIST, scope, d + 1), args=[self.int_expr(scope, d + 1)])
            return self.node("list", xs=[self.int_expr(scope, d + 1) for _ in range(r.randint(0, 3))])
        if ty == OPT:
            if self.features.get("ext3") and d < 2 and r.random() < 0.1:
                return self.node("mcall", m="index_of", recv=self.expr(STR, scope, d + 1), args=[self.expr(STR, scope, d + 1)])
            if self.features.get("ext2") and d < 2 and r.random() < 0.2:
                k = r.randint(0, 3)
                if k == 0:
                    return self.node("mcall", m=r.choice(["first", "last"]), recv=self.expr(LIST, scope, d + 1), args=[])
                if k == 1:
                    return self.node("mcall", m="index_of", recv=self.expr(LIST, scope, d + 1), args=[self.int_expr(scope, d + 1)])
                return self.node("mcall", m="get", recv=self.expr(DICT, scope, d + 1), args=[self.expr(STR, scope, d + 1)])
            v = self.pick_var(scope, OPT)
            c = r.random()
            if v and c < 0.3:
                return self.node("var", n=v)
            if c < 0.5:
                return self.node("ctor", n="None", args=[])
            if d < 2 and c < 0.65:
                return self.node("mcall", m="get", recv=self.expr(LIST, scope, d + 1), args=[self.int_expr(scope, d + 1)])
            return self.node("ctor", n="Some", args=[self.int_expr(scope, d + 1)])
        if ty == ENUM:
            self.uses_enum = True
            v = self.pick_var(scope, ENUM)
            c = r.random()
            if v and c < 0.3:
                return self.node("var", n=v)
            if c < 0.6:
                return self.node("ctor", n="A1", args=[])
            if c < 0.8:
                return self.node("ctor", n="C1", args=[])
            return self.node("ctor", n="B1", args=[self.int_expr(scope, d + 1)])
        if ty == UNIT:
            return self.node("unit")
        if ty == DICT:
            v = self.pick_var(scope, DICT)
            c = r.random()
            if v and c < 0.35:
                return self.node("var", n=v)
            if d < 2 and c < 0.55:
                return self.node("mcall", m="set", recv=self.expr(DICT, scope, d + 1), args=[self.expr(STR, scope, d + 1), self.int_expr(scope, d + 1)])
            if d < 2 and c < 0.65:
                return self.node("mcall", m="remove", recv=self.expr(DICT, scope, d + 1), args=[self.expr(STR, scope, d + 1)])
            return self.node("dlit", kvs=[{"key": self.expr(STR, scope, d + 2), "val": self.int_expr(scope, d + 1)} for _ in range(r.randint(0, 3))])
        if ty == STRUCT:
            self.uses_struct = True
            v = self.pick_var(scope, STRUCT)
            if v and r.random() < 0.5:
                return self.node("var", n=v)
            fs = [{"n": "x", "e": self.int_expr(scope, d + 1)}, {"n": "y", "e": self.expr(STR, scope, d + 1)}]
            if r.random() < 0.25:
                fs.reverse()          # a literal may list the fields in any order
            return self.node("slit", n="P1", fs=fs)
        raise ValueError(ty)

    def paren(self, e):
        return self.node("paren", e=e)

    def str_list(self, scope, d):
        """An expression of type List<String> (feature "ext3")."""
        r = self.r
        c = r.randint(0, 2)
        if c == 0:
            return self.node("mcall", m="split", recv=self.expr(STR, scope, d + 1), args=[self.node("str", v=r.choice(["a", " ", "b", "ab", ""]))])
        if c == 1:
            return self.node("mcall", m="chars", recv=self.expr(STR, scope, d + 1), args=[])
        return self.node("list", xs=[self.expr(STR, scope, d + 1) for _ in range(r.randint(0, 3))])

    def inline_lam(self, scope, rt):
        """A closure written where it is used (argument of map / filter)."""
        p = self.fresh("a")
        inner = scope + [(p, INT)]
        return self.node("lam", ps=[p], b=[self.expr(rt, inner, 2)], rt=rt)

    def meth_call(self, scope, d, rt):
        """A call of a user-defined method returning rt, or None."""
        cands = [n for n, (tt, pt, t) in self.meth_sigs.items() if t == rt and n != self.in_fun]
        if not cands:
            return None
        m = self.r.choice(cands)
        tt, pt, _ = self.meth_sigs[m]
        return self.node("mcall", m=m, recv=self.expr(tt, scope, d + 1), args=[self.expr(t, scope, d + 1) for t in pt])

    def int_expr(self, scope, d=0):
        r = self.r
        if d < 3 and self.has_tracer and r.random() < self.features.get("tracer", 0.05):
            # tr(e) prints e and returns it: makes evaluation order, repetition
            # and loss of a step observable
            return self.node("call", f=self.node("var", n="tr"), args=[self.int_expr(scope, d + 1)])
        if self.features.get("ext") and d < 3 and r.random() < 0.06:
            return self.node("dot", e=self.expr(STRUCT, scope, d + 1), f="x")
        if self.features.get("ext2") and d < 3 and r.random() < 0.14:
            k = r.randint(0, 3)
            if k == 0:
                mc = self.meth_call(scope, d, INT)
                if mc:
                    return mc
            if k == 1:
                return self.node("call", f=self.node("var", n=r.choice(["max", "min"])), args=[self.int_expr(scope, d + 1), self.int_expr(scope, d + 1)])
            if k == 2:
                return self.node("mcall", m="or_value", recv=self.expr(OPT, scope, d + 1), args=[self.int_expr(scope, d + 1)])
            mc = self.meth_call(scope, d, INT)
            if mc:
                return mc
        c = r.random()
        v = self.pick_var(scope, INT)
        if d >= 3 or c < 0.25:
            if v and r.random() < 0.6:
                return self.node("var", n=v)
            if self.features.get("ext2") and r.random() < 0.15:
                return self.node("int", v=-r.randint(1, 9))       # a negative literal: one token
            return self.node("int", v=r.randint(0, 9))
        if c < 0.55:
            op = r.choice(["+", "+", "-", "*", "/", "%", "**"])
            l = self.int_expr(scope, d + 1)
            if op in ("/", "%"):
                rr = self.node("int", v=r.randint(1, 4)) if r.random() < 0.9 else self.int_expr(scope, d + 1)
            elif op == "**":
                rr = self.node("int", v=r.randint(0, 3))
                l = self.node("int", v=r.randint(0, 4)) if r.random() < 0.7 else l
            else:
                rr = self.int_expr(scope, d + 1)
            return self.paren(self.node("bin", op=op, l=l, r=rr))
        if c < 0.7 and self.fun_sigs:
            cands = [n for n, (pt, rt) in self.fun_sigs.items() if rt == INT and n != self.in_fun]
            if cands:
                f = r.choice(cands)
                pt, _ = self.fun_sigs[f]
                return self.node("call", f=self.node("var", n=f), args=[self.expr(t, scope, d + 1) for t in pt])
        if c < 0.78:
            clos = [n for (n, t) in scope if isinstance(t, tuple) and t[0] == "clo" and t[2] == INT]
            if clos:
                f = r.choice(clos)
                t = [t for (n, t) in scope if n == f][-1]
                if isinstance(t, tuple):
                    return self.node("call", f=self.node("var", n=f), args=[self.expr(x, scope, d + 1) for x in t[1]])
        if c < 0.86:
            return self.node("mcall", m="len", recv=self.expr(r.choice([LIST, STR]), scope, d + 1), args=[])
        if c < 0.93 and d < 2:
            return self.node("if", c=self.bool_expr(scope, d + 1), t=[self.int_expr(scope, d + 2)],
                             f=[self.int_expr(scope, d + 2)], inline=True, **{"else": True})
        if v:
            return self.node("var", n=v)
        return self.node("int", v=r.randint(0, 9))

    def bool_expr(self, scope, d=0):
        r = self.r
        c = r.random()
        v = self.pick_var(scope, BOOL)
        if d >= 3 or c < 0.15:
            if v and r.random() < 0.5:
                return self.node("var", n=v)
            return self.node("bool", v=r.random() < 0.5)
        if self.features.get("ext3") and r.random() < 0.12:
            return self.node("mcall", m=r.choice(["contains", "starts_with", "ends_with"]), recv=self.expr(STR, scope, d + 1), args=[self.expr(STR, scope, d + 1)])
        if self.features.get("ext2") and r.random() < 0.15:
            k = r.randint(0, 3)
            if k == 0:
                return self.node("mcall", m=r.choice(["is_empty", "is_non_empty"]), recv=self.expr(LIST, scope, d + 1), args=[])
            if k == 1:
                return self.node("mcall", m="contains", recv=self.expr(LIST, scope, d + 1), args=[self.int_expr(scope, d + 1)])
            if k == 2:
                return self.node("mcall", m=r.choice(["is_some", "is_none"]), recv=self.expr(OPT, scope, d + 1), args=[])
            return self.node("call", f=self.node("var", n="not"), args=[self.bool_expr(scope, d + 1)])
        clos = [n for (n, t) in scope if isinstance(t, tuple) and t[0] == "clo" and t[2] == BOOL]
        if clos and r.random() < 0.3:
            f = r.choice(clos)
            t = [t for (n, t) in scope if n == f][-1]
            if isinstance(t, tuple) and t[2] == BOOL:
                return self.node("call", f=self.node("var", n=f), args=[self.expr(x, scope, d + 1) for x in t[1]])
        if c < 0.6:
            op = r.choice(["<", "<=", ">", ">=", "==", "!="])
            return self.paren(self.node("bin", op=op, l=self.int_expr(scope, d + 1), r=self.int_expr(scope, d + 1)))
        if c < 0.75:
            op = r.choice(["&&", "||"])
            return self.paren(self.node("bin", op=op, l=self.bool_expr(scope, d + 1), r=self.bool_expr(scope, d + 1)))
        if c < 0.9:
            ty = r.choice([STR, LIST, OPT, BOOL])
            return self.paren(self.node("bin", op=r.choice(["==", "!="]), l=self.expr(ty, scope, d + 1), r=self.expr(ty, scope, d + 1)))
        return self.node("bool", v=r.random() < 0.5)

    # ---- error injection: a statement that (probably) fails at run time
    def bad_stmt(self, scope):
        r = self.r
        c = r.randint(0, 9)
        if c == 0:
            return self.node("show", e=self.node("var", n=self.fresh("undefined")))
        if c == 1:
            return self.node("show", e=self.paren(self.node("bin", op="+", l=self.int_expr(scope, 2), r=self.node("str", v="a"))))
        if c == 2:
            return self.node("show", e=self.paren(self.node("bin", op=r.choice(["/", "%"]), l=self.int_expr(scope, 2), r=self.node("int", v=0))))
        if c == 3:
            return self.node("assert", e=self.paren(self.node("bin", op="==", l=self.node("int", v=1), r=self.node("int", v=2))))
        if c == 4:
            return self.node("throw", v="boom")
        if c == 5:
            if self.features.get("ext2") and r.random() < 0.6:
                # the target is not a variable but the name of a function (the program's own, a prelude function,
                # a built-in): "not currently bound", like any other unbound target
                names = sorted(self.fun_sigs) + ["println", "max", "string_repr", "tr" if self.has_tracer else "range"]
                return self.node(r.choice(["set", "set", "upd"]), n=r.choice(names), e=self.int_expr(scope, 2), op="+")
            return self.node("set", n=self.fresh("unbound"), e=self.int_expr(scope, 2))
        if c == 6 and self.fun_sigs:
            f = r.choice(sorted(self.fun_sigs))
            pt, _ = self.fun_sigs[f]
            return self.node("show", e=self.node("call", f=self.node("var", n=f), args=[self.int_expr(scope, 2) for _ in range(len(pt) + 1)]))
        if c == 7:
            return self.node("if", c=self.int_expr(scope, 2), t=[self.node("print", v="t")], f=[], inline=False, **{"else": False})
        if c == 9 and self.features.get("ext2"):
            k = r.randint(0, 4)
            if k == 0 and self.meth_sigs:
                m = r.choice(sorted(self.meth_sigs))
                tt, pt, _ = self.meth_sigs[m]
                return self.node("show", e=self.node("mcall", m=m, recv=self.expr(tt, scope, 2), args=[self.int_expr(scope, 2) for _ in range(len(pt) + 1)]))
            if k == 1:
                return self.node("show", e=self.node("mcall", m=r.choice(["first", "is_empty", "items", "is_some"]), recv=self.int_expr(scope, 2), args=[]))
            if k == 2:
                return self.node("show", e=self.node("dlit", kvs=[{"key": self.expr(STR, scope, 2), "val": self.int_expr(scope, 2)}, {"key": self.int_expr(scope, 2), "val": self.int_expr(scope, 2)}]))
            if k == 3 and r.random() < 0.5:
                self.uses_struct = True
                fs = r.choice([[("x", INT), ("y", INT)], [("x", STR), ("y", STR)], [("x", INT)], [("x", INT), ("y", STR), ("z", INT)], [("x", INT), ("x", INT), ("y", STR)]])
                return self.node("show", e=self.node("slit", n="P1", fs=[{"n": n, "e": self.expr(t, scope, 2)} for n, t in fs]))
            if k == 3:
                return self.node("show", e=self.node("call", f=self.node("var", n=r.choice(["max", "range"])), args=[self.int_expr(scope, 2), self.expr(STR, scope, 2)]))
            return self.node("show", e=self.node("mcall", m="get", recv=self.expr(DICT, scope, 2), args=[self.int_expr(scope, 2)]))
        if c == 8 and self.features.get("ext"):
            k = r.randint(0, 2)
            if k == 0:
                return self.node("show", e=self.node("dot", e=self.expr(STRUCT, scope, 2), f="z"))
            if k == 1:
                return self.node("letd", ns=[self.fresh(), self.fresh()], e=self.node("tuple", xs=[self.int_expr(scope, 2) for _ in range(3)]))
            return self.node("show", e=self.node("dot", e=self.int_expr(scope, 2), f="x"))
        if c == 8:
            return self.node("show", e=self.node("call", f=self.int_expr(scope, 3), args=[]))
        return self.node("for", n=self.fresh("i"), it=self.int_expr(scope, 2), b=[self.node("print", v="f")])

    # ---- statements
    def stmts(self, scope, n, depth, in_loop, in_fun, budget):
        out = []
        scope = list(scope)
        for _ in range(n):
            s = self.stmt(scope, depth, in_loop, in_fun, budget)
            out.append(s)
        return out

    def stmt(self, scope, depth, in_loop, in_fun, budget):
        r = self.r
        if r.random() < self.err_rate / max(1, self.size):
            return self.bad_stmt(scope)
        if depth >= 1 and r.random() < 0.04:
            sc = self.shadow_closure(scope)
            if sc:
                return sc
        if self.features.get("ext") and r.random() < 0.14:
            k = r.random()
            if k < 0.3:
                name = self.fresh("s")
                e = self.expr(STRUCT, scope)
                scope.append((name, STRUCT))
                return self.node("let", n=name, e=e)
            if k < 0.45:
                return self.node("show", e=self.expr(STRUCT, scope))
            if k < 0.65:
                a, b = self.fresh(), self.fresh()
                e = self.node("tuple", xs=[self.int_expr(scope, 1), self.int_expr(scope, 1)])
                scope.append((a, INT))
                scope.append((b, INT))
                return self.node("letd", ns=[a, b], e=e)
            if k < 0.8 and depth < 3:
                a, b = self.fresh("i"), self.fresh("i")
                it = self.node("list", xs=[self.node("tuple", xs=[self.int_expr(scope, 2), self.int_expr(scope, 2)]) for _ in range(r.randint(0, 3))])
                body = self.stmts(scope + [(a, INT), (b, INT)], r.randint(1, 2), depth + 1, True, in_fun, budget)
                return self.node("ford", ns=[a, b], it=it, b=body)
            if depth < 3:
                body = self.stmts(scope, r.randint(0, 2), depth + 1, in_loop, in_fun, budget)
                if r.random() < 0.5:
                    name = self.fresh()
                    body.append(self.int_expr(scope, 1))
                    scope.append((name, INT))
                    return self.node("let", n=name, e=self.node("try", b=body, cb=[self.node("int", v=0)]))
                return self.node("try", b=body, cb=[self.node("print", v="never")])
        if self.features.get("ext3") and r.random() < 0.08:
            if r.random() < 0.15:
                # a mistake: start beyond end, or a negative start
                return self.node("show", e=self.node("mcall", m="substring", recv=self.expr(STR, scope, 1), args=[self.node("int", v=r.choice([2, -1])), self.node("int", v=1)]))
            return self.node("show", e=self.str_list(scope, 1))
        if self.features.get("ext2") and r.random() < 0.12:
            k = r.random()
            if k < 0.35:
                name = self.fresh("d")
                e = self.expr(DICT, scope)
                scope.append((name, DICT))
                return self.node("let", n=name, e=e)
            if k < 0.6:
                return self.node("show", e=self.expr(DICT, scope))
            if k < 0.75:
                return self.node("show", e=self.node("mcall", m="items", recv=self.expr(DICT, scope, 1), args=[]))
            if k < 0.9:
                return self.node("show", e=self.node("mcall", m="enumerate", recv=self.expr(LIST, scope, 1), args=[]))
            v = self.pick_var(scope, DICT)
            if v:
                return self.node("set", n=v, e=self.expr(DICT, scope))
        c = r.random()
        if c < 0.22:
            ty = r.choice([INT, INT, INT, BOOL, STR, LIST, OPT, ENUM])
            e = self.expr(ty, scope)
            # occasionally shadow an existing name
            existing = [n for (n, t) in scope if not isinstance(t, tuple) and not n.startswith("k")]
            shadow_ok = not (self.features.get("unique_top") and depth == 0)
            name = r.choice(existing) if existing and shadow_ok and r.random() < 0.15 else self.fresh()
            scope.append((name, ty))
            return self.node("let", n=name, e=e)
        if c < 0.32:
            cands = [(n, t) for (n, t) in scope if t in (INT, BOOL, STR, LIST, OPT) and not n.startswith("k")]
            cands = [(n, t) for (n, t) in cands if [tt for (nn, tt) in scope if nn == n][-1] == t]
            if cands:
                n, t = r.choice(cands)
                return self.node("set", n=n, e=self.expr(t, scope))
        if c < 0.40:
            v = self.pick_var(scope, INT)
            if v and not v.startswith("k"):
                return self.node("upd", n=v, op=r.choice(["+", "-"]), e=self.int_expr(scope, 1))
        if c < 0.58:
            ty = r.choice([INT, INT, BOOL, STR, LIST, OPT, ENUM])
            if r.random() < 0.1:
                return self.node("show", e=self.node("tuple", xs=[self.expr(r.choice([INT, STR, BOOL]), scope, 1) for _ in range(r.randint(1, 3))]))
            return self.node("show", e=self.expr(ty, scope))
        if c < 0.62:
            return self.node("print", v=r.choice(["p", "q ", "r\n"]))
        if depth < 3 and c < 0.72:
            has_else = r.random() < 0.5
            return self.node("if", c=self.bool_expr(scope), inline=False,
                             t=self.stmts(scope, r.randint(0, 3), depth + 1, in_loop, in_fun, budget),
                             f=self.stmts(scope, r.randint(0, 2), depth + 1, in_loop, in_fun, budget) if has_else else [],
                             **{"else": has_else})
        if depth < 3 and c < 0.79:
            # counting while loop; the counter is reserved (prefix k) and is
            # incremented first so that `continue` cannot skip it
            k = self.fresh("k")
            bound = r.randint(1, 4)
            scope.append((k, INT))
            body = [self.node("upd", n=k, op="+", e=self.node("int", v=1))]
            body += self.stmts(scope, r.randint(1, 3), depth + 1, True, in_fun, budget)
            kv = self.node("var", n=k)
            if self.has_tracer and r.random() < max(0.3, self.features.get("tracer", 0)):
                kv = self.node("call", f=self.node("var", n="tr"), args=[kv])
            w = self.node("while", c=self.paren(self.node("bin", op="<", l=kv, r=self.node("int", v=bound))), b=body)
            return [self.node("let", n=k, e=self.node("int", v=0)), w]
        if depth < 3 and c < 0.85:
            x = self.fresh("i")
            it = self.expr(LIST, scope, 1)
            body = self.stmts(scope + [(x, INT)], r.randint(1, 3), depth + 1, True, in_fun, budget)
            return self.node("for", n=x, it=it, b=body)
        if in_loop and c < 0.89:
            return self.node(r.choice(["break", "continue"]))
        if in_fun and c < 0.91:
            if r.random() < self.err_rate / 2:
                # a mistake: a return of the other type
                return self.node("ret", e=self.expr(BOOL if in_fun == INT else INT, scope, 1))
            return self.node("ret", e=self.expr(in_fun, scope, 1))
        if depth < 3 and c < 0.96:
            outer_ints = [n for (n, t) in scope if t == INT and not n.startswith("k")]

            def bind_name():
                # a pattern variable may shadow a variable of the enclosing scope (which is then used again
                # in other arms and after the match)
                if outer_ints and not (self.features.get("unique_top") and depth == 0) and r.random() < 0.3:
                    return r.choice(outer_ints)
                return self.fresh("m")
            if r.random() < 0.5:
                x = bind_name()
                arms = [
                    {"v": "Some", "bind": x, "wild": False, "b": self.stmts(scope + [(x, INT)], r.randint(0, 2), depth + 1, in_loop, in_fun, budget)},
                    {"v": "None", "bind": "", "wild": False, "b": self.stmts(scope, r.randint(0, 2), depth + 1, in_loop, in_fun, budget)},
                ]
                if r.random() < 0.3:
                    arms.reverse()
                return self.node("match", s=self.expr(OPT, scope, 1), arms=arms)
            x = bind_name()
            arms = [
                {"v": "B1", "bind": x, "wild": False, "b": self.stmts(scope + [(x, INT)], r.randint(0, 2), depth + 1, in_loop, in_fun, budget)},
                {"v": "A1", "bind": "", "wild": False, "b": self.stmts(scope, r.randint(0, 2), depth + 1, in_loop, in_fun, budget)},
            ]
            if r.random() < 0.8:
                arms.append({"v": "", "bind": "", "wild": True, "b": self.stmts(scope, r.randint(0, 1), depth + 1, in_loop, in_fun, budget)})
            return self.node("match", s=self.expr(ENUM, scope, 1), arms=arms)
        if depth < 3 and c < 0.99:
            # closure capturing the current scope
            name = self.fresh("c")
            p = self.fresh("a")
            inner = scope + [(p, INT)]
            rt = BOOL if r.random() < 0.3 else INT      # the closure's return type may differ from the enclosing function's
            body = self.stmts(inner, r.randint(0, 2), depth + 1, False, rt, budget)
            body.append(self.expr(rt, inner, 1))
            scope.append((name, ("clo", (INT,), rt)))
            return self.node("let", n=name, e=self.node("lam", ps=[p], b=body, rt=rt))
        return self.node("show", e=self.int_expr(scope))

    def shadow_closure(self, scope):
        """Inside a nested block: shadow an outer Int variable, create a closure
        that reads it, call the closure (now and through a second variable)."""
        r = self.r
        outer = [n for (n, t) in scope if t == INT and not n.startswith("k")]
        if not outer:
            return None
        x = r.choice(outer)
        cname, p = self.fresh("c"), self.fresh("a")
        inner = scope + [(x, INT), (p, INT)]
        body = [self.paren(self.node("bin", op=r.choice(["+", "-", "*"]), l=self.node("var", n=x), r=self.node("var", n=p)))]
        out = [self.node("let", n=x, e=self.paren(self.node("bin", op="+", l=self.node("var", n=x), r=self.node("int", v=r.randint(10, 90))))),
               self.node("let", n=cname, e=self.node("lam", ps=[p], b=body, rt=INT)),
               self.node("show", e=self.node("call", f=self.node("var", n=cname), args=[self.int_expr(scope, 2)]))]
        if r.random() < 0.5:
            out.insert(2, self.node("set", n=x, e=self.int_expr(scope, 2)))
        scope.append((x, INT))
        scope.append((cname, ("clo", (INT,), INT)))
        return out

    def flat(self, xs):
        out = []
        for x in xs:
            if isinstance(x, list):
                out.extend(self.flat(x))
            else:
                out.append(x)
        return out

    def fix_lists(self, n):
        """stmts() may return nested lists (let + while); flatten everywhere."""
        if isinstance(n, dict):
            for k, v in list(n.items()):
                if k in ("t", "f", "b", "cb", "main") and isinstance(v, list):
                    n[k] = [self.fix_lists(x) for x in self.flat(v)]
                elif k == "arms":
                    for a in v:
                        a["b"] = [self.fix_lists(x) for x in self.flat(a["b"])]
                elif isinstance(v, dict):
                    self.fix_lists(v)
                elif isinstance(v, list):
                    for x in v:
                        if isinstance(x, dict):
                            self.fix_lists(x)
        return n

    def program(self, pid):
        r = self.r
        if r.random() < 0.7 or self.features.get("tracer"):
            x = "x0"
            self.funs.append({"n": "tr", "ps": [x], "pt": [INT], "rt": INT, "line": 0,
                              "b": [self.node("show", e=self.node("var", n=x)), self.node("var", n=x)]})
            self.has_tracer = True
        if self.features.get("ext2"):
            for i in range(r.randint(0, 3)):
                name = f"m{i + 1}"
                tt = r.choice([INT, STR, LIST, OPT, ENUM, STRUCT, DICT])
                if tt == ENUM:
                    self.uses_enum = True
                if tt == STRUCT:
                    self.uses_struct = True
                pt = [INT for _ in range(r.randint(0, 1))]
                ps = [self.fresh("p") for _ in pt]
                this = "this" if r.random() < 0.8 else self.fresh("self")
                scope = [(this, tt)] + list(zip(ps, pt))
                self.in_fun = name
                body = self.stmts(scope, r.randint(0, 2), 1, False, INT, None)
                body.append(self.int_expr(scope, 1))
                self.meths.append({"n": name, "recv": RECV_NAME[tt], "this": this, "tt": tt, "ps": ps, "pt": pt, "rt": INT, "b": body, "line": 0})
                self.meth_sigs[name] = (tt, pt, INT)
        nf = r.randint(0, 3)
        for i in range(nf):
            name = f"f{i + 1}"
            pt = [INT for _ in range(r.randint(0, 2))]
            # the first parameter is reserved (prefix k: never reassigned or
            # shadowed) so that the guarded recursion below terminates
            ps = [self.fresh("k" if j == 0 else "p") for j in range(len(pt))]
            scope = list(zip(ps, pt))
            self.in_fun = name
            body = self.stmts(scope, r.randint(0, 3), 1, False, INT, None)
            if ps and r.random() < 0.4:
                # guarded self recursion on the first parameter
                rec = self.node("if", inline=False, c=self.paren(self.node("bin", op=">", l=self.node("var", n=ps[0]), r=self.node("int", v=0))),
                                t=[self.node("ret", e=self.paren(self.node("bin", op="+", l=self.node("int", v=1),
                                     r=self.node("call", f=self.node("var", n=name),
                                                 args=[self.paren(self.node("bin", op="-", l=self.node("var", n=ps[0]), r=self.node("int", v=1)))] +
                                                      [self.node("int", v=0) for _ in ps[1:]]))))],
                                f=[], **{"else": False})
                body.append(rec)
            body.append(self.int_expr(scope, 1))
            self.funs.append({"n": name, "ps": ps, "pt": pt, "rt": INT, "b": body, "line": 0})
            self.fun_sigs[name] = (pt, INT)
        self.in_fun = None
        main = self.flat(self.stmts([], self.size, 0, False, None, None))
        if self.features.get("session_safe") and main and main[-1]["k"] in ("for", "ford"):
            # a session `run` whose last top-level expression is a `for` loop
            # stops at the loop entry (eval-up-to special case); keep such
            # programs out of session-based checks that are not about that
            main.append(self.node("show", e=self.node("int", v=0)))
        prog = {"id": pid, "funs": self.funs, "main": main, "uses_enum": False, "uses_struct": False}
        # the declaration of the one struct: Ref.tla checks struct literals against it
        prog["structs"] = [{"n": "P1", "fs": [{"n": "x", "t": "Int"}, {"n": "y", "t": "String"}]}]
        if self.features.get("ext2"):
            prog["meths"] = self.meths
        self.fix_lists(prog)
        for f in prog["funs"] + prog.get("meths", []):
            f["b"] = [self.fix_lists(x) for x in self.flat(f["b"])]
        prog["uses_enum"] = self.uses_enum or True
        prog["uses_struct"] = self.uses_struct
        return prog


# --------------------------------------------------------------------------
# rendering: tree -> source text; assigns line / start / end to every node


class Writer:
    def __init__(self):
        self.buf = []
        self.line = 1
        self.off = 0

    def w(self, s):
        self.buf.append(s)
        self.line += s.count("\n")
        self.off += len(s.encode("utf-8"))

    def text(self):
        return "".join(self.buf)


BINOPS = {"+", "-", "*", "/", "%", "**", "<", "<=", ">", ">=", "==", "!=", "&&", "||", "^"}


def lit_str(s):
    return '"' + s.replace("\\", "\\\\").replace('"', '\\"').replace("\n", "\\n") + '"'


def render_expr(w, e, ind):
    e["line"] = w.line
    e["start"] = w.off
    k = e["k"]
    if k == "int":
        w.w(str(e["v"]))
    elif k == "str":
        w.w(lit_str(e["v"]))
    elif k == "bool":
        w.w("True" if e["v"] else "False")
    elif k == "unit":
        w.w("Unit")
    elif k == "var":
        w.w(e["n"])
    elif k == "paren":
        w.w("(")
        render_expr(w, e["e"], ind)
        w.w(")")
    elif k == "slit":
        w.w(e["n"] + "{ ")
        for i, f in enumerate(e["fs"]):
            if i:
                w.w(", ")
            w.w(f["n"] + ": ")
            render_expr(w, f["e"], ind)
        w.w(" }")
    elif k == "dot":
        render_expr(w, e["e"], ind)
        w.w("." + e["f"])
    elif k == "dlit":
        w.w("Dict[")
        for i, kv in enumerate(e["kvs"]):
            if i:
                w.w(", ")
            render_expr(w, kv["key"], ind)
            w.w(" => ")
            render_expr(w, kv["val"], ind)
        w.w("]")
    elif k == "watch":
        # transparent marker (C27): the wrapped node is printed as it is
        render_expr(w, e["e"], ind)
    elif k == "bin":
        render_expr(w, e["l"], ind)
        w.w(" " + e["op"] + " ")
        render_expr(w, e["r"], ind)
    elif k in ("list", "tuple"):
        w.w("[" if k == "list" else "(")
        for i, x in enumerate(e["xs"]):
            if i:
                w.w(", ")
            render_expr(w, x, ind)
        if k == "tuple" and len(e["xs"]) == 1:
            w.w(",")
        w.w("]" if k == "list" else ")")
    elif k == "ctor":
        w.w(e["n"])
        if e["args"]:
            w.w("(")
            render_expr(w, e["args"][0], ind)
            w.w(")")
    elif k == "call":
        render_expr(w, e["f"], ind)
        w.w("(")
        for i, x in enumerate(e["args"]):
            if i:
                w.w(", ")
            render_expr(w, x, ind)
        w.w(")")
    elif k == "mcall":
        render_expr(w, e["recv"], ind)
        w.w("." + e["m"] + "(")
        for i, x in enumerate(e["args"]):
            if i:
                w.w(", ")
            render_expr(w, x, ind)
        w.w(")")
    elif k == "if" and e.get("inline"):
        w.w("if ")
        render_expr(w, e["c"], ind)
        w.w(" { ")
        render_expr(w, e["t"][0], ind)
        w.w(" } else { ")
        render_expr(w, e["f"][0], ind)
        w.w(" }")
    elif k == "lam":
        w.w("fun(" + ", ".join(f"{p}: Int" for p in e["ps"]) + "): " + ("Bool" if e.get("rt") == "Bool" else "Int") + " {\n")
        render_block(w, e["b"], ind + 1)
        w.w("  " * ind + "}")
    else:
        render_stmt_inline(w, e, ind)
    e["end"] = w.off


def render_stmt_inline(w, e, ind):
    """Statement-like nodes; the cursor is already at the indentation."""
    k = e["k"]
    if k == "let":
        w.w(f"let {e['n']} = ")
        render_expr(w, e["e"], ind)
    elif k == "letd":
        w.w("let (" + ", ".join(e["ns"]) + e.get("pad", "") + ") = ")       # pad: layout variation set by a check (C21)
        render_expr(w, e["e"], ind)
    elif k == "ford":
        w.w("for (" + ", ".join(e["ns"]) + ") in ")
        render_expr(w, e["it"], ind)
        w.w(" {\n")
        render_block(w, e["b"], ind + 1)
        w.w("  " * ind + "}")
    elif k == "try":
        w.w("try {\n")
        render_block(w, e["b"], ind + 1)
        w.w("  " * ind + "} catch (e9) {\n")
        render_block(w, e["cb"], ind + 1)
        w.w("  " * ind + "}")
    elif k == "set":
        w.w(f"{e['n']} = ")
        render_expr(w, e["e"], ind)
    elif k == "upd":
        w.w(f"{e['n']} {e['op']}= ")
        render_expr(w, e["e"], ind)
    elif k == "show":
        w.w("println(string_repr(")
        render_expr(w, e["e"], ind)
        w.w("))")
    elif k == "print":
        w.w("print(" + lit_str(e["v"]) + ")")
    elif k == "throw":
        w.w("throw(" + lit_str(e["v"]) + ")")
    elif k == "assert":
        w.w("assert(")
        render_expr(w, e["e"], ind)
        w.w(")")
    elif k == "break":
        w.w("break")
    elif k == "continue":
        w.w("continue")
    elif k == "ret":
        w.w("return ")
        render_expr(w, e["e"], ind)
    elif k == "if":
        w.w("if ")
        render_expr(w, e["c"], ind)
        w.w(" {\n")
        render_block(w, e["t"], ind + 1)
        w.w("  " * ind + "}")
        if e["else"]:
            w.w(" else {\n")
            render_block(w, e["f"], ind + 1)
            w.w("  " * ind + "}")
    elif k == "while":
        w.w("while ")
        render_expr(w, e["c"], ind)
        w.w(" {\n")
        render_block(w, e["b"], ind + 1)
        w.w("  " * ind + "}")
    elif k == "for":
        w.w(f"for {e['n']} in ")
        render_expr(w, e["it"], ind)
        w.w(" {\n")
        render_block(w, e["b"], ind + 1)
        w.w("  " * ind + "}")
    elif k == "match":
        w.w("match ")
        render_expr(w, e["s"], ind)
        w.w(" {\n")
        for a in e["arms"]:
            w.w("  " * (ind + 1))
            if a["wild"]:
                w.w("_")
            else:
                w.w(a["v"] + (f"({a['bind']})" if a["bind"] else ""))
            w.w(" => {\n")
            render_block(w, a["b"], ind + 2)
            w.w("  " * (ind + 1) + "}\n")
        w.w("  " * ind + "}")
    else:
        raise ValueError("cannot render " + k)


def render_block(w, stmts, ind):
    for s in stmts:
        w.w("  " * ind)
        render_expr(w, s, ind)
        w.w("\n")


def render(prog):
    """Returns source text; fills in line/start/end on the tree."""
    w = Writer()
    if prog.get("uses_enum"):
        w.w("enum E1 { A1, B1(Int), C1 }\n")
    if prog.get("uses_struct"):
        w.w("struct P1 { x: Int, y: String }\n")
    render_meths(w, prog)
    for f in prog["funs"]:
        f["line"] = w.line
        params = ", ".join(f"{p}: {t}" for p, t in zip(f["ps"], f["pt"]))
        w.w(f"fun {f['n']}({params})" + (f": {f['rt']}" if f["rt"] else "") + " {\n")
        render_block(w, f["b"], 1)
        w.w("}\n")
    render_block(w, prog["main"], 0)
    return w.text()


def render_meths(w, prog):
    for m in prog.get("meths", []):
        m["line"] = w.line
        params = ", ".join([f"{m['this']}: {m['tt']}"] + [f"{p}: {t}" for p, t in zip(m["ps"], m["pt"])])
        w.w(f"method {m['n']}({params})" + (f": {m['rt']}" if m["rt"] else "") + " {\n")
        render_block(w, m["b"], 1)
        w.w("}\n")


def generate(seed, pid, size=12, err_rate=0.25, features=None):
    g = Gen(seed, size=size, err_rate=err_rate, features=features)
    prog = g.program(pid)
    src = render(prog)
    return prog, src


def walk(n, fn):
    """Apply fn to every AST node (dicts with 'k')."""
    if isinstance(n, dict):
        if "k" in n:
            fn(n)
        for v in n.values():
            walk(v, fn)
    elif isinstance(n, list):
        for x in n:
            walk(x, fn)


if __name__ == "__main__":
    import sys
    seed = int(sys.argv[1]) if len(sys.argv) > 1 else 0
    prog, src = generate(seed, seed)
    print(src)
    print(json.dumps(prog)[:600])
