#!/usr/bin/env python3
"""Regenerates /verif/MANIFEST.json from the table below (single source of
truth for which properties are claimed, at which level, by which technique)."""
import json
import os

VERIF = os.path.dirname(os.path.dirname(os.path.abspath(__file__)))

# id -> (level, technique, level text, level note, design ref)
CLAIMED = {
    "C05": ("model_checking",
            "TLA+ reference semantics (Ref.tla) evaluated by TLC on generated programs, replayed into the interpreter; Machine.tla refinement checked by TLC",
            "TLC evaluates the big-step reference semantics on every generated core-language program and the real interpreter's stdout, outcome variant and failing line must equal it; bounded (seeded programs), not a proof",
            "trusts Ref.tla's PINNED clauses (evaluation order, closure snapshot) as the language definition; integers below 1e9; programs from tools/gen_prog.py only",
            "DESIGN.md §3.3, §6 C05"),
}

PENDING = "check not built yet in this round (see DESIGN.md §11 build order); no claim is made"
NOT_APPLICABLE = {}


def main():
    props = [json.loads(l) for l in open(os.path.join(VERIF, "properties.jsonl"))]
    ids = [p["id"] for p in props]
    checks = []
    for pid in ids:
        if pid not in CLAIMED:
            continue
        level, tech, text, note, ref = CLAIMED[pid]
        checks.append({
            "property_id": pid,
            "quick_cmd": f"./check {pid} --tier quick",
            "thorough_cmd": f"./check {pid} --tier thorough",
            "evidence_file": f"evidence/{pid}.json",
            "replay_cmd_template": f"./check {pid} --replay {{path}}",
            "engine": "tlc+replay",
            "level_claimed": {"category": level, "text": text, "design_ref": ref},
            "level_note": note,
            "technique": tech,
        })
    na = [{"property_id": pid, "reason": NOT_APPLICABLE.get(pid, PENDING)} for pid in ids if pid not in CLAIMED]
    hooks = ["7ca2b86", "6bdcc63", "7624268"]
    m = {
        "version": 1,
        "setup_cmd": "python3 tools/setup.py",
        "hooks": {
            "guard": "wilfred_garden_verif",
            "enable": "RUSTFLAGS='--cfg wilfred_garden_verif --check-cfg cfg(wilfred_garden_verif)' CARGO_TARGET_DIR=/verif/.build/target cargo build --offline (done by tools/common.py build())",
            "baseline_off_cmd": "cd /repo && cargo nextest run --workspace --no-fail-fast --offline --test-threads 8 || cargo test --workspace --no-fail-fast --offline",
            "source_commits": hooks,
            "add_only": True,
        },
        "engines": [
            {"name": "tlc+replay", "path": "check", "serves_properties": [c["property_id"] for c in checks],
             "kind_free_text": "TLA+ specifications under spec/ checked or evaluated by TLC; behaviours replayed into the garden binary built from /repo with hooks (spec->impl), or recorded traces validated against the spec (impl->spec)"},
        ],
        "checks": checks,
        "not_applicable": na,
        "notes": "All checks rebuild /repo's working tree with --cfg wilfred_garden_verif into /verif/.build/target. Exit 2 = tool error (no verdict).",
    }
    with open(os.path.join(VERIF, "MANIFEST.json"), "w") as f:
        json.dump(m, f, indent=1)
    print(f"{len(checks)} checks, {len(na)} not claimed")


if __name__ == "__main__":
    main()
