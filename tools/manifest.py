#!/usr/bin/env python3
"""Regenerates /verif/MANIFEST.json from the table below (single source of
truth for which properties are claimed, at which level, by which technique)."""
import json
import os

VERIF = os.path.dirname(os.path.dirname(os.path.abspath(__file__)))

# id -> (level, technique, level text, level note, design ref)
MC = "model_checking"
CLAIMED = {
    "C01": (MC, "TLC enumerates source texts over the character classes of Lexer.tla (and token sequences over a 38-word vocabulary); each is replayed into the real lexer / parser / checker / formatter (hook `frontend`), the lexer's tokens must equal the model's and no stage may crash or hang",
            "exhaustive over every text of <= 3 (quick) / 4 (thorough) characters from 20 classes covering every lexer branch and UTF-8 width, with the lexer's token, comment and error spans compared to the specification; token sequences of length <= 2/3 exhaustively; seeded longer texts, token-boundary truncations and mutations of the repository's 540 Garden files",
            "beyond the exhaustive bound the exploration is seeded, not complete; nesting deeper than 150 levels overflows the parser's stack (recorded known finding)",
            "DESIGN.md §6 C01"),
    "C16": (MC, "TLC evaluates Ref.tla on generated, fully annotated programs with injected mistakes and classifies each failure kind; the real checker judges the same programs and an accepted program must not fail type-relatedly (confirmed by the real run)",
            "seeded programs (error rate 0.35) whose failure kind the reference semantics determines (TypeError, Arity, ExpectedFunction, MethodError, NoCase, NoSuchVariable, NotBound are type-related); every program `check` accepts without errors must not fail with one of them",
            "bounded by the generator's type-directed shapes (with user-defined methods, dictionaries, struct literals) plus a designed family in which typed expressions reach an annotated parameter through an if, a list literal or a match; local lets are unannotated (inferred)",
            "DESIGN.md §6 C16"),
    "C17": (MC, "TLC enumerates Syntax.tla tree families and prints their canonical text; hook `ast` compares the parser's tree (and the lexer's comment list) before and after `format` on canonical and re-laid-out texts",
            "every ExprTrees(1) / StmtTrees(1|2) text, seeded generator programs printed by the specification and the repository's files, each also with seeded layout changes (whitespace, newlines, comments, multi-line / non-ASCII string literals): the formatted text must parse to the same tree with the same comments",
            "for canonical texts the tree is the specification's S(t) (C33); for re-laid-out inputs the reference is the parser's tree of the input; optional commas are not varied",
            "DESIGN.md §6 C17"),
    "C18": (MC, "TLC-enumerated Syntax.tla families (plus layouts and non-parsing mutations): format(format(x)) = format(x) on every input; `format --check` on formatter output",
            "the C17 families plus token-level mutations that do not parse; every input is formatted twice and the two results must be identical; a seeded sample of outputs goes through `garden format --check`",
            "idempotence is an equation between two runs of the implementation: the specification contributes the input families",
            "DESIGN.md §6 C18"),
    "C19": (MC, "TLC evaluates Ref.tla on generated programs with shadowing and closures; `reftest-rename` at seeded occurrences must change only that identifier and the renamed program must behave as the reference says the original does",
            "seeded programs x seeded occurrences of local names (definitions and uses): the output differs from the input only in identifier tokens of that name becoming the fresh name, the token under the cursor included, and runs to the reference's output / outcome / value",
            "which occurrences belong to a definition is judged through behaviour (missed or extra occurrences change output, fail, or change a captured value); LSP equality is C29's",
            "DESIGN.md §6 C19"),
    "C20": (MC, "TLC evaluates Ref.tla on generated assignment-free programs; extract-variable / extract-function on seeded pure sub-expressions must give programs that parse and behave as the reference says the original does",
            "seeded programs that run to completion x seeded side-effect-free sub-expressions x {variable, function}",
            "targets are literal / operator / collection / constructor / built-in-method expressions; runs of sibling statements are not selected",
            "DESIGN.md §6 C20"),
    "C21": (MC, "TLC evaluates Ref.tla on generated programs; wrap-in-dbg at seeded expression spans and add-type-annotation at seeded let names must give programs that parse, gain no check errors and behave as the reference says the original does",
            "seeded programs x seeded expression spans / let names: standard output, outcome and value equal the reference's; annotations introduce no new `check` errors",
            "parameters and return types of generated functions are already annotated, so annotations are requested on lets",
            "DESIGN.md §6 C21"),
    "C22": (MC, "TLC evaluates Ref.tla on generated programs; inert lint bait is added and `check --fix` is applied repeatedly: every intermediate text must parse and behave as the reference says the original does, and a fixed point must be reached",
            "seeded programs that run to completion, as generated and with seeded bait (unused literals and lets, duplicated boolean operands, list length comparisons, unused type parameters in several layouts, a discarded match with one-line cases); fixes applied up to 6 rounds",
            "unused imports are not generated; bait is verified inert on the real interpreter before fixing",
            "DESIGN.md §6 C22"),
    "C23": (MC, "TLC computes the position table of Lexer.tla for enumerated texts (lexer positions must equal it) and judges with PosOK every position recorded from the front end, interpreter, JSON session and go-to-definition",
            "spec->impl: all six position fields of every token, comment and lexer error on every text of <= 3/4 characters from 20 classes and seeded longer texts; impl->spec: every position reported for the repository's Garden files and generated programs, plain, perturbed with multi-line / non-ASCII literals, wide comments, CRLF, and mutated, is validated by TLC against the text's table",
            "positions naming another file (prelude) are not judged; LSP UTF-16 positions belong to C29",
            "DESIGN.md §6 C23"),
    "C02": (MC, "TLC: Machine.tla NoStuck on the program family + Builtins.tla call matrix enumeration; every case replayed into the interpreter, crash = violation",
            "TLC checks that every step of the explicit-stack machine is defined on the bounded program family and enumerates the built-in call matrix; each call, the 16x16 integer boundary grid and error-injected programs are run by the real interpreter and must end in a value or a Garden-level error",
            "bounded: the call matrix covers every listed built-in with one representative value per kind; a harness timeout counts as non-termination, not as a crash",
            "DESIGN.md §6 C02"),
    "C03": (MC, "TLC enumerates operator chains and their left fold (Syntax.tla LeftFold); the parser's tree (hook `ast`) must equal it; integer chains confirmed by value",
            "exhaustive over chains of length 2..4 (quick) / 2..6 (thorough) x 3 operator classes (complete for shape) x rotations covering all 21 operators x operand patterns; the real parser must build exactly the left fold",
            "tools/rustdebug.py (removal of positions / ids from the parser's own dump) is trusted; tree shape only depends on operator positions, not on which operator",
            "DESIGN.md §6 C03"),
    "C04": (MC, "TLA+ integer arithmetic (Int64.tla) with a TLC-checked limb refinement, evaluated by TLC at 64 bits and replayed into the interpreter",
            "TLC proves the 8-bit-limb operators equal the mathematical definition exhaustively at W=8 and on a grid at W=16, evaluates them at W=64 on boundary x boundary and random operands; the interpreter's printed value or exception must agree, and += / -= must match + / -",
            "float numerics (IEEE results) are excluded: only exceptions, operand typing and closure are checked for floats",
            "DESIGN.md §6 C04, §7"),
    "C05": (MC, "TLA+ reference semantics (Ref.tla) evaluated by TLC on generated programs, replayed into the interpreter; Machine.tla refinement checked by TLC",
            "TLC evaluates the big-step reference semantics on every generated core-language program and the real interpreter's stdout, outcome variant and failing line must equal it; bounded (seeded programs), not a proof",
            "trusts Ref.tla's PINNED clauses (evaluation order, closure snapshot) as the language definition; integers below 1e9; programs from tools/gen_prog.py only",
            "DESIGN.md §3.3, §6 C05"),
    "C06": (MC, "TLC: Machine.tla vs Ref.tla (scope dropped on every exit) on the exhaustive exit matrix; each case replayed into the interpreter",
            "exhaustive matrix of nesting chains (<=3 quick, <=4 thorough) x exit kind x probe position; TLC checks the machine against the reference on all of them and the interpreter must fail at the probe exactly as the reference does",
            "probes are plain reads of uniquely named block locals; leaks observable only through closures are left to C05",
            "DESIGN.md §6 C06"),
    "C07": (MC, "TLC: Session.tla ResumeRepeatsError (RestoreExact in every error step of Machine.tla); real JSON sessions resumed 3 times for every failing built-in call, construct and generated program",
            "TLC resumes every error of error-heavy programs (with interrupts interleaved) and checks the same error recurs; the real session must answer :resume x3 with the same message and position for the failing-call matrix, the failing-construct catalogue and generated programs",
            "message equality is between answers of the same session (wording independent); run/:resume render assertion failures differently and are normalised",
            "DESIGN.md §6 C07"),
    "C08": (MC, "TLC: Session.tla with SetInterrupt as a free action (InterruptInvisible); hook H2 interrupts the real session at every tick and at seeded pairs/triples",
            "TLC places up to 2 interrupts before every tick of every small program and checks the finished evaluation equals the reference; the real session is interrupted at every tick of each generated program, resumed, and must print and answer exactly as uninterrupted (every second program ends in an expression whose value is the answer)",
            "interrupts are injected through the production AtomicBool by hook H2; network/reader latency is not modelled",
            "DESIGN.md §6 C08"),
    "C09": (MC, "TLC: JsonSession.tla (reader/channel/worker, OneResponsePerRequest + liveness); TLC-enumerated and simulated request histories replayed into real sessions",
            "every history over a 65-symbol request alphabet (every REPL command, load requests, byte ranges that do not fit their text, multi-byte characters around the command name) up to the exhaustive bound (2 quick; 2 over everything and 3 over 27 state-changing symbols thorough) plus simulated histories of length 5-6 is replayed: one admissible answer per request, in order, the session still answers afterwards, and it ends only by `:quit` (spec action Quit: status 0, everything before it answered)",
            "answer kinds are deliberately loose; `interrupt` requests (answered out of band by the reader) are outside the alphabet",
            "DESIGN.md §6 C09"),
    "C10": (MC, "TLC: Session.tla AbortIsClean with Abort enabled in every stopped state; real sessions aborted at depth x blocks x pending values x trailing statements compared with a fresh session",
            "TLC aborts every stopped state of error-heavy programs and checks the clean-state invariant; hundreds of real abort situations (also with other requests served between the failure and `:abort`) are probed (names, locals of aborted frames, :resume :stack :fstmts :locals) and must answer exactly like a fresh session with the same definitions and variables",
            ":fvalues is excluded from the probes (legitimate difference); the failing call is a named function so top-level variables are unaffected by the aborted evaluation",
            "DESIGN.md §6 C10"),
    "C11": (MC, "TLC: compositional sequencing of Ref.tla at every split point (MC_Split) and Ref's value of the last input; real sessions fed piecewise vs at once",
            "error-free generated programs are sent to a real session one definition / statement per request and as one request; the last answered value and the printed output must agree with each other and with the reference semantics",
            "each top-level name defined once; functions, methods, the struct and the enum are separate inputs, for a third of the programs in a shuffled order (a method before the type it is defined on)",
            "DESIGN.md §6 C11"),
    "C24": (MC, "TLC enumerates the forbidden-effect call matrix from Builtins.tla (SandboxExpect); each call x 6 call positions runs in playground-run / sandboxed-test with canaries",
            "every fs / proc / stdin built-in, well-formed and ill-formed, at top level, in a function, in a closure passed to map, in a sandboxed test, via alias and via unqualified import: directory snapshot unchanged, canary executable not run, stdin line not consumed, outcome = sandbox error (argument error allowed for ill-formed calls)",
            "effect classes are those of Builtins.tla; env / time / random built-ins are outside the property",
            "DESIGN.md §6 C24"),
    "C25": (MC, "TLC: Machine.tla with TickLimit/StackLimit: TicksBounded invariant and Termination liveness on diverging programs (MC_Limits); real sandboxed runs of diverging / resource-hungry programs under a wall clock",
            "TLC proves on the bounded family that every behaviour under the limits stops; 20 diverging or resource-hungry programs x {playground-run, sandboxed-test} must end by themselves with value / error / limit error",
            "wall-clock 60 s and 4 GiB address space per run; two families are recorded known findings (deep nesting, unbounded step cost)",
            "DESIGN.md §6 C25, §8"),
    "C26": (MC, "TLC: TestRunner.tla (VerdictIndependent, SummaryHonest) exhaustively over files of <=3/4 tests x 7 body kinds x filters; each configuration replayed with `garden test`",
            "every configuration's failed-test set, summary counts and exit status from the real runner must equal the model's; running a test alone (-n) is one of the filters",
            "selection is by name substring; body kinds are fixed templates (including failures deep in callee frames with half-built values)",
            "DESIGN.md §6 C26"),
    "C12": (MC, "TLC: Display.tla StringRoundTrip over all strings of a 9-symbol alphabet (MC_Display) and Disp evaluated on the value pool; both the printed form and its re-reading checked on the interpreter",
            "for every pool value the interpreter's string_repr must equal the specified printed form, and that text must parse, re-print identically and compare equal",
            "equality-only failures are attributed to C13; arbitrary floats are not specified",
            "DESIGN.md §6 C12"),
    "C13": (MC, "TLC evaluates structural equality (Display.tla VEq) on pairs of the value pool; programs compare two separately constructed values",
            "reflexive, same-kind, cross-kind and near-miss pairs: a == b, a != b and b == a printed by the interpreter must equal VEq(a, b) and its negation",
            "pairs are bounded by the pool; transitivity follows from agreement with an equivalence on all compared pairs",
            "DESIGN.md §6 C13"),
    "C14": (MC, "TLC checks the preorder / variance laws on Types.tla (Sub) over all pairs of Full(1) and all triples of Reduced(1) and prints the relation; hook `subtype` evaluates the real is_subtype on the same pairs",
            "TLC decides reflexivity, top/bottom, variance and transitivity on the bounded type family in the model; the real is_subtype must agree with Sub bit for bit on all 101x101 pairs of depth <= 1 and on seeded random pairs of depth <= 3",
            "laws are model checked on a bounded family (no TLAPS proof was built); agreement model/implementation is sampled beyond depth 1",
            "DESIGN.md §6 C14"),
    "C15": (MC, "TLC checks join-is-an-upper-bound and idempotence on Types.tla (Join) and prints the join table; hook `subtype` evaluates the real unify on the same pairs",
            "what the real unify returns is judged by TLC with Sub (an upper bound of both arguments; the argument itself when both are equal) on all pairs of Full(1) and seeded pairs of depth <= 3; list literals and three-armed matches over 19 typed expressions are typed by the real checker and the reported type must cover every element (the n-ary unify_all path)",
            "bounded families; a better join than the specification's is not a violation",
            "DESIGN.md §6 C15"),
    "C27": (MC, "TLC evaluates Ref.tla with a `watch` node (first value of one seeded sub-expression) on generated programs; a real JSON session is asked eval_up_to at that expression and must answer that value",
            "seeded programs x seeded watched sub-expression of the top level (literals, variables, operators, parentheses, lists, tuples, constructors, calls, method calls, also inside lambda bodies), top level as a block or a test; the answer must be the first value Ref.tla records, or an error exactly when the program fails before reaching the expression",
            "let / assignment / loop positions (special reporting rules) and expressions a successful run never evaluates are not judged; bounded by the generator",
            "DESIGN.md §6 C27"),
    "C28": (MC, "TLC trace validation (LspTrace.tla over Lsp.tla) of the framed traffic of a real `garden lsp` process under seeded message sequences; diagnostics compared with `garden check --json`",
            "every recorded session (requests of every method at in-range and out-of-range positions, unknown documents and methods, malformed parameters, frames that are not JSON-RPC, hostile documents) must be a behaviour of Lsp.tla: one response per request id, none for notifications, one publishDiagnostics per open/change/close, exit status from shutdown; each diagnostics payload equals the checker's",
            "requests are sent one at a time (the server is single threaded); message texts of diagnostics are not compared",
            "DESIGN.md §6 C28"),
    "C29": (MC, "TLC checks the round-trip / clamping laws of LspPos.tla on every small document and prints every conversion; hook `lsppos` evaluates the real conversion functions on the same documents; LSP edits applied by an independent applier are compared with the command-line refactorings",
            "exhaustive over documents of <= 3 (quick) / 4 (thorough) characters from {1,2,3,4-byte characters, LF, CR}: every boundary offset, every (line, character) grid point, the whole-document range; seeded longer documents; formatting, rename and five code actions on the repository's files, plain and with multi-byte text / CR LF / no final newline",
            "edit equality is sampled (seeded offsets and ranges); lines end at LF only",
            "DESIGN.md §6 C29"),
    "C32": (MC, "TLC model checks the documentation's laws against Prelude.tla's definitions and prints every call with its specified result; each call is replayed into the interpreter with a step budget",
            "every argument tuple over strings of <= 2 (quick) / 3-4 (thorough) characters from {a, b, e-acute, space, newline}, needles <= 2 including the empty one, 8 boundary integers, integer lists <= 3: the interpreter's string_repr must equal the specification's value (or raise where it says so) and every call must finish within 200000 steps",
            "map / filter with three function arguments each; whitespace = space and the empty-needle meaning are PINNED choices of the specification",
            "DESIGN.md §6 C32"),
    "C34": (MC, "TLC enumerates every import project over two files x two names and (restricted) three files x one name, checks that the loader model terminates and compares it with the declarative visibility rule; sampled projects are materialised and probed with the real run and check",
            "exhaustive in the model (45927 projects: definitions none/private/public, imports none/plain/alias including self imports and cycles, imports before or after definitions); replayed: seeded sample biased to cyclic projects, every root x every name x direct / aliased / from-inside-another-file probe, at run time and (root level) at check time",
            "definitions are functions; which definition wins a name collision is not specified by the property and only constrained to the files that may provide it",
            "DESIGN.md §6 C34"),
    "C30": (MC, "TLC model checking of Nrepl.tla (all interleavings of reader / workers / flushers / writer on 7 client scenarios, safety + liveness) and TLC trace validation (NreplTrace.tla) of traces recorded from the real server under seeded schedule perturbation",
            "the design is checked exhaustively on bounded scenarios; every recorded send/recv log of the real server must be explained by some interleaving of the specification's silent server steps with all invariants holding; corrupted copies of accepted traces are rejected on every run; a request printing 256 KiB just before it ends is judged by the same completeness invariant evaluated on the recorded messages",
            "the exhaustive claim is about the model; trace validation covers the schedules produced by the kernel and hook H3; error message texts are not compared",
            "DESIGN.md §3.5, §6 C30"),
    "C31": (MC, "TLC: Nrepl.tla InterruptedOnlyIfAsked + InterruptStops liveness; trace validation of interrupt-heavy scenarios; timed sub-checks on the real server",
            "interrupt / close at seeded moments (before the eval, while queued, during, after, twice) are recorded and validated against the specification; every scenario ends with a value probe behind its cleanup interrupts (a stale flag would cancel it); an idle interrupt must not cancel the next eval, an interrupt or close during a loop seen running must end it `interrupted`",
            "an interrupt handled before the worker has reset the flag (eval still queued / just dequeued) is, by design, wiped like an idle one: the model makes this explicit",
            "DESIGN.md §3.5, §6 C31"),
    "C33": (MC, "TLC enumerates Syntax.tla tree families and prints seeded programs (P / S operators); the parser must rebuild the same tree",
            "every tree of ExprTrees(1) / StmtTrees(d) (d=1 quick; 2 thorough, the real parser on a seeded sample of 20 000 of them), operator chains and generated programs printed by the specification must parse without errors to exactly the printed tree; Print injective on the family",
            "the families cover the core grammar; structs/dicts/imports/tests are exercised elsewhere",
            "DESIGN.md §6 C33"),
}

PENDING = "check not built yet in this round (see DESIGN.md §11 build order); no claim is made"
NOT_APPLICABLE = {}


def main():
    props = [json.loads(l) for l in open(os.path.join(VERIF, "properties.jsonl"))]
    ids = [p["id"] for p in props]
    checks = []
    for pid in ids:
        if pid not in CLAIMED:
            continue
        level, tech, text, note, ref = CLAIMED[pid]
        checks.append({
            "property_id": pid,
            "quick_cmd": f"./check {pid} --tier quick",
            "thorough_cmd": f"./check {pid} --tier thorough",
            "evidence_file": f"evidence/{pid}.json",
            "replay_cmd_template": f"./check {pid} --replay {{path}}",
            "engine": "tlc+replay",
            "level_claimed": {"category": level, "text": text, "design_ref": ref},
            "level_note": note,
            "technique": tech,
        })
    na = [{"property_id": pid, "reason": NOT_APPLICABLE.get(pid, PENDING)} for pid in ids if pid not in CLAIMED]
    hooks = ["7ca2b86", "6bdcc63", "7624268", "e81137b"]
    m = {
        "version": 1,
        "setup_cmd": "python3 tools/setup.py",
        "hooks": {
            "guard": "wilfred_garden_verif",
            "enable": "RUSTFLAGS='--cfg wilfred_garden_verif --check-cfg cfg(wilfred_garden_verif)' CARGO_TARGET_DIR=/verif/.build/target cargo build --offline (done by tools/common.py build())",
            "baseline_off_cmd": "cd /repo && cargo nextest run --workspace --no-fail-fast --offline --test-threads 8 || cargo test --workspace --no-fail-fast --offline",
            "source_commits": hooks,
            "add_only": True,
        },
        "engines": [
            {"name": "tlc+replay", "path": "check", "serves_properties": [c["property_id"] for c in checks],
             "kind_free_text": "TLA+ specifications under spec/ checked or evaluated by TLC; behaviours replayed into the garden binary built from /repo with hooks (spec->impl), or recorded traces validated against the spec (impl->spec)"},
        ],
        "checks": checks,
        "not_applicable": na,
        "notes": "All checks rebuild /repo's working tree with --cfg wilfred_garden_verif into /verif/.build/target. Exit 2 = tool error (no verdict).",
    }
    with open(os.path.join(VERIF, "MANIFEST.json"), "w") as f:
        json.dump(m, f, indent=1)
    print(f"{len(checks)} checks, {len(na)} not claimed")


if __name__ == "__main__":
    main()
