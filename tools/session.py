"""Driving the JSON session (`garden reftest-json-session`) and projecting its
responses to observables."""
import json
import re

from common import json_session


def run_req(src):
    return {"method": "run", "input": src}


def project(resp):
    """Project one response to (kind, payload):
       ('printed', text) | ('printed_err', text) | ('value', text) |
       ('error', message, start_offset, line) | ('interrupted',) |
       ('command', message) | ('malformed', message) | ('other', keys)"""
    k = resp.get("kind", {})
    if not isinstance(k, dict):
        return ("other", str(k))
    if "printed" in k:
        return ("printed", k["printed"].get("s", ""))
    if "printed_stderr" in k:
        return ("printed_err", k["printed_stderr"].get("s", ""))
    if "interrupted" in k:
        return ("interrupted",)
    if "evaluate" in k:
        v = k["evaluate"].get("value", {})
        if "Err" in v:
            errs = v["Err"] or [{}]
            e = errs[0]
            msg = e.get("message", "")
            if msg == "Interrupted":
                return ("interrupted",)
            pos = e.get("position") or {}
            return ("error", msg, pos.get("start_offset"), pos.get("line_number"), e.get("stack") or "")
        return ("value", v.get("Ok"))
    if "run_command" in k:
        return ("command", k["run_command"].get("message", ""))
    if "malformed_request" in k:
        return ("malformed", k["malformed_request"].get("message", ""))
    return ("other", sorted(k.keys()))


def split_by_request(resps):
    """Group projected responses: prints attach to the following
    non-print response (one 'answer' per request)."""
    groups, cur = [], []
    for r in resps:
        p = project(r)
        if p[0] in ("printed", "printed_err"):
            cur.append(p)
        else:
            groups.append((cur, p))
            cur = []
    return groups, cur


def run_session(reqs, env=None, timeout=30):
    rc, resps, err = json_session(reqs, timeout=timeout, env=env)
    return rc, resps, err


_EVAL_TO = re.compile(r"the expression evaluated to (.*)\.$", re.S)


def normalize_answer(ans):
    """A `run` request wraps the value in a summary sentence ("Loaded 2
    definitions in x.gdn, and the expression evaluated to V."), a resumed
    evaluation reports V alone: reduce both to V."""
    if ans and ans[0] == "value" and isinstance(ans[1], str):
        m = _EVAL_TO.search(ans[1])
        if m:
            return ("value", m.group(1))
        if ans[1].startswith("Loaded ") or ans[1].startswith("Ran "):
            return ("value", None)
    if ans and ans[0] == "error":
        # (kind, message, start offset, line)
        msg = ans[1]
        if msg == "Assertion failed" and len(ans) > 4 and ans[4]:
            # a `run` request reports assertion failures as "Assertion failed"
            # with the real message in the stack text; :resume reports the
            # message itself
            msg = ans[4].split("\n")[0]
        if msg.startswith("Exception: "):
            msg = msg[len("Exception: "):]
        return ("error", msg, ans[2], ans[3])
    return ans


def final_of_evaluation(groups):
    """Concatenate what an evaluation printed across its interruptions and
    return (stdout, final answer) where the final answer is the first
    non-'interrupted' answer."""
    out = ""
    for prints, ans in groups:
        out += "".join(p[1] for p in prints if p[0] == "printed")
        if ans[0] != "interrupted":
            return out, ans
    return out, None
