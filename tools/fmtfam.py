"""Input families of the formatter checks (C17, C18): texts printed by
Syntax.tla (every tree of the bounded families, generated programs), the
repository's Garden files, and token-preserving perturbations of them:
random whitespace and newlines between tokens, comments with wide characters,
multi-line and non-ASCII string literals."""
import random

from common import batch
import frontend as fe
import refrun
import syntaxrun

GAPS = [" ", " ", "  ", "\n", "\n\n", "\n    ", "      ", " \n  ", "\n\n\n"]
STRINGS = ['"ends in blanks   \n  x"', '"tab\t\nend \n"', '"a\nb"', '"é\n€\n\U0001F600"', '"\n"', '"x\\n\ny"', '"é"', '"  two  spaces  "', '"// not a comment"', '"{ [ ("', '"a\n    indented\n  b"']


def perturb(rnd, src, toks, wild=False):
    """Same tokens (string literals possibly replaced), different layout.
    mild: line structure kept (a gap with a newline keeps one, a gap without stays on its line); indentation,
          spacing inside lines, blank lines and comment lines vary.
    wild: line breaks may also appear inside statements and disappear between them."""
    parts, tail = fe.split_tokens(src, toks)
    out = []
    for k, (gap, t) in enumerate(parts):
        if t.startswith('"') and t.endswith('"') and len(t) >= 2 and rnd.random() < 0.5:
            t = rnd.choice(STRINGS)
        r = rnd.random()
        if k == 0 or gap == "":
            g = gap                                   # adjacency can be syntax (`Foo{`, `f(`, `-1`)
        elif "//" in gap:
            g = gap
        elif "\n" in gap:
            if wild and r < 0.2:
                g = rnd.choice(GAPS[:3])
            else:
                g = rnd.choice(["\n", "\n", "\n\n", "\n\n\n"]) + " " * rnd.choice([0, 0, 2, 4, 7])
                if rnd.random() < 0.12:
                    g = "\n// note \u00e9\U0001F600" + g
        elif wild and r < 0.15:
            g = rnd.choice(GAPS[3:])
        else:
            g = rnd.choice(GAPS[:3])
        out.append(g + t)
    return "".join(out) + tail


def signatures(rnd, n):
    """One-line function and method signatures around the 100-column wrapping limit, with and without the
    spaces the formatter inserts (`x:Int` becomes `x: Int` and may push the line over the limit)."""
    out = []
    for _ in range(n):
        target = rnd.randint(88, 112)
        sep = rnd.choice([":", ": ", ":"])
        head = rnd.choice(["fun ", "public fun ", "method "])
        name = "f" + "u" * rnd.randint(1, 12)
        params = []
        if head == "method ":
            params.append("this" + sep + "String")
        k = 0
        while True:
            k += 1
            cand = params + ["p" + "a" * rnd.randint(1, 9) + str(k) + sep + rnd.choice(["Int", "String", "List<Int>", "Option<String>"])]
            line = head + name + "(" + ", ".join(cand) + ")" + sep + "Int {"
            if len(line) > target:
                break
            params = cand
        line = head + name + "(" + ", ".join(params) + ")" + sep + "Int {"
        out.append(("signature", line + "\n  1\n}\n"))
    return out


def family(tier, seed, with_mutations=False):
    """-> (tlc results, [(name, text)])"""
    rnd = random.Random(seed * 53 + 17)
    tlcs, texts = [], []
    r1, i1 = syntaxrun.items("expr", depth=1)
    r2, i2 = syntaxrun.items("stmt", depth=1 if tier == "quick" else 2)
    progs, _ = refrun.gen_programs(seed + 171, 60 if tier == "quick" else 600, 5, err_rate=0.2)
    r3, i3 = syntaxrun.items("prog", progs=progs)
    tlcs += [r1, r2, r3]
    its = [("expr", it["src"]) for it in i1] + [("stmt", it["src"]) for it in i2] + [("prog", it["src"]) for it in i3]
    # TLC enumerates the whole statement family (92 000 trees at depth 2); the implementation is run on a
    # seeded sample of it: with six re-laid-out variants of every text the full family does not fit the budget
    stm = [x for x in its if x[0] == "stmt"]
    rnd.shuffle(stm)
    its = [x for x in its if x[0] != "stmt"] + stm[:400 if tier == "quick" else 6000]
    its += signatures(rnd, 40 if tier == "quick" else 300)
    corpus = [(n, s.split("\n// args: ")[0].rstrip("\n") + "\n") for n, s in fe.corpus()]
    if tier == "quick":
        rnd.shuffle(corpus)
        corpus = corpus[:150]
    base = its + corpus
    toks = batch("frontend", [{"id": i, "src": s, "tokens": True, "check": False, "format": False} for i, (_, s) in enumerate(base)], timeout_per=2.0)
    for (name, s), r in zip(base, toks):
        texts.append((name, s))
        if r.get("tokens"):
            for _ in range(1 if tier == "quick" else 3):
                texts.append((name + "+layout", perturb(rnd, s, r["tokens"])))
                texts.append((name + "+wildlayout", perturb(rnd, s, r["tokens"], wild=True)))
            if with_mutations:
                for kind, m in fe.mutations(rnd, s, r["tokens"], 1 if tier == "quick" else 3):
                    texts.append((name + "+" + kind, m))
    seen = set()
    uniq = []
    for n, s in texts:
        if s not in seen:
            seen.add(s)
            uniq.append((n, s))
    return tlcs, uniq
