"""Shared by C03 / C33 / C17: enumerate trees with TLC (spec/MC_Syntax.tla) and
compare the real parser's tree (verif-batch `ast`, reduced by rustdebug) with
the S-expression the specification predicts."""
import os
import shutil

from common import SPEC, ToolError, batch, scratch_dir, tlc, tlc_ok, write_ndjson
import rustdebug


def items(mode, depth=1, maxchain=4, progs=None, workers=8, timeout=1800):
    name = f"MC_Syntax_{mode}_{os.getpid()}.cfg"
    with open(os.path.join(SPEC, name), "w") as f:
        f.write(f'CONSTANTS\n  Mode = "{mode}"\n  Depth = {depth}\n  MaxChain = {maxchain}\nINIT Init\nNEXT Next\nINVARIANT Emit\nCHECK_DEADLOCK FALSE\n')
    d = scratch_dir("syn")
    env = {}
    try:
        if progs is not None:
            path = os.path.join(d, "progs.ndjson")
            write_ndjson(path, progs)
            env["PROGS"] = path
        res = tlc("MC_Syntax", cfg=name, env=env, workers=workers, timeout=timeout, heap="8g")
    finally:
        os.remove(os.path.join(SPEC, name))
        shutil.rmtree(d, ignore_errors=True)
    tlc_ok(res, f"MC_Syntax mode={mode}")
    its = res.tag("ITEM")
    if not its:
        raise ToolError(f"MC_Syntax mode={mode} printed nothing")
    return res, its


def parse_real(srcs):
    """[(parse_error_count, [sexp...] or None)] for each source text."""
    out = []
    res = batch("ast", [{"id": i, "src": s} for i, s in enumerate(srcs)])
    for r in res:
        if r.get("outcome") in ("panic", "died", "timeout"):
            out.append((None, None, r))
            continue
        nerr = len(r.get("parse_errors") or [])
        try:
            sx = rustdebug.sexps(r.get("dump", ""))
        except ValueError as e:
            raise ToolError(f"cannot reduce the parser's dump: {e}")
        out.append((nerr, sx, r))
    return out
