"""Record nREPL traces from the real server and validate them against
spec/NreplTrace.tla (impl -> spec binding for C30 / C31)."""
import json
import os
import random
import shutil

from common import ToolError, log, pmap, scratch_dir, tlc, write_ndjson
import nrepl_client as nc

# script vocabulary: name -> (Garden code, abstract script)
SPIN = "let sp = 0 while sp < 60000 { sp += 1 }"
VOCAB = {
    "V": ("1 + 1", [{"k": "val"}]),
    "P": ('print("a") println("b") 7', [{"k": "out", "t": "a"}, {"k": "out", "t": "b\n"}, {"k": "val"}]),
    "PE": ('print("o1") eprint("e1") print("o2") 0', [{"k": "out", "t": "o1"}, {"k": "err", "t": "e1"}, {"k": "out", "t": "o2"}, {"k": "val"}]),
    "PLP": ('print("p1") ' + SPIN + ' print("p2") eprintln("q") 1',
            [{"k": "out", "t": "p1"}, {"k": "out", "t": "p2"}, {"k": "err", "t": "q\n"}, {"k": "val"}]),
    "X": ('throw("boom")', [{"k": "error"}]),
    "PX": ('print("x") throw("boom")', [{"k": "out", "t": "x"}, {"k": "error"}]),
    "S": ("let = ", [{"k": "error"}]),
    "L": ("while True { }", [{"k": "loop"}]),
    "LP": ('let i = 0 while True { i += 1 if i % 20000 == 0 { print("t") } }', [{"k": "loopout", "t": "t"}]),
    "D": ("fun f9() { 1 }", [{"k": "val"}]),
}
KNOWN_STATUS = {"done", "error", "eval-error", "interrupted", "unknown-session", "unknown-op", "session-closed"}


def abstract_session(s):
    if not s:
        return "none"
    s = nc.text(s)
    return "s" + s.split("-")[-1] if s.startswith("garden-") else "s0"


class Scenario:
    """Builds the request list of one connection and, alongside, the abstract
    `send` events (scripts depend on what each session has defined)."""

    def __init__(self, rnd):
        self.rnd = rnd
        self.steps = []          # (delay, request)
        self.abstract = {}       # request id -> abstract send event
        self.n = 0
        self.nsess = 0
        self.defs = {}           # abstract session -> has f9
        self.closed = set()
        self.spun = set()        # sessions that were sent a spinning eval

    def rid(self, p):
        self.n += 1
        return f"{p}{self.n}"

    def add(self, delay, op, session=None, code=None, script=None, prefix="r"):
        rid = self.rid(prefix)
        req = {"op": op, "id": rid}
        if session:
            req["session"] = "garden-" + session[1:]
        if op == "completions":
            req["prefix"] = "pri"
        elif op == "lookup":
            req["sym"] = "println"
        elif code is not None and op == "load-file":
            req["file"] = code
            req["file-path"] = "/tmp/verif_nrepl_load.gdn"
        elif code is not None:
            req["code"] = code
        self.steps.append((delay, req))
        self.abstract[rid] = {"ev": "send", "op": op, "id": rid, "session": session or "none", "script": script or []}
        return rid

    def clone(self, delay=0.0):
        self.nsess += 1
        self.add(delay, "clone", prefix="c")
        return f"s{self.nsess}"

    def eval(self, delay, session, name, op="eval"):
        if name == "R":      # isolation probe: a call of f9
            defined = self.defs.get(session, False) and session not in self.closed
            code, script = "f9()", ([{"k": "val"}] if defined else [{"k": "error"}])
        else:
            code, script = VOCAB[name]
            if name == "D":
                self.defs[session] = True
        if op == "load-file":
            # a loaded file has its own namespace and the session stays in it: what was defined before is not
            # visible to later requests (a later definition is)
            self.defs[session] = False
        return self.add(delay, op, session, code, script, prefix="e" if op == "eval" else "f")


def gen_scenario(rnd, focus):
    sc = Scenario(rnd)
    s1 = sc.clone()
    sessions = [s1]
    # give the worker time to build its environment in half of the scenarios;
    # the other half race the first eval against worker start-up
    first_delay = rnd.choice([0.0, 0.0, 0.4])
    n = rnd.randint(3, 7)
    running_loop = {}
    for k in range(n):
        d = first_delay if k == 0 else rnd.choice([0.0, 0.0, 0.02, 0.15, 0.35])
        c = rnd.random()
        s = rnd.choice(sessions)
        if c < 0.12 and len(sessions) < 2:
            sessions.append(sc.clone(d))
        elif c < 0.55:
            names = ["V", "P", "PE", "PLP", "X", "PX", "S", "D", "R"]
            if focus == "interrupt":
                names += ["L", "LP", "L", "LP"]
            else:
                names += ["LP", "PLP", "PE"]
            name = rnd.choice(names)
            if name in ("L", "LP") and running_loop.get(s):
                name = "V"            # one spinning eval per session at a time
            # (definitions and calls of f9 stay in eval requests: a loaded file has its own namespace)
            op = "load-file" if name in ("V", "P", "PE", "X", "PX") and rnd.random() < 0.3 else "eval"
            sc.eval(d, s, name, op)
            if name in ("L", "LP"):
                running_loop[s] = True
                sc.spun.add(s)
            elif rnd.random() < 0.25:
                # a pipeline: more requests written back to back behind this one, sometimes ended by a close
                for _ in range(rnd.randint(1, 2)):
                    nm = rnd.choice(["V", "P", "X", "R"])
                    sc.eval(0.0, s, nm, "eval" if nm == "R" else rnd.choice(["eval", "eval", "load-file"]))
                if rnd.random() < 0.4 and s not in sc.closed:
                    sc.add(0.0, "close", s, prefix="k")
                    sc.closed.add(s)
                    running_loop.pop(s, None)
        elif c < 0.80:
            sc.add(d, "interrupt", s, prefix="i")
            running_loop.pop(s, None)
        elif c < 0.86:
            sc.add(d, "close", s, prefix="k")
            sc.closed.add(s)
            running_loop.pop(s, None)
        elif c < 0.90:
            sc.add(d, "eval", "s9", "1 + 1", [{"k": "val"}], prefix="e")
        elif c < 0.95:
            # session-bound requests that do not evaluate, and ops the reader answers itself
            op = rnd.choice(["completions", "lookup", "describe", "ls-sessions"])
            if op in ("completions", "lookup"):
                sc.add(d, op, s, script=[{"k": "info"}], prefix="q")
            else:
                sc.add(d, op, prefix="d")
        else:
            sc.add(d, "frob", s, prefix="u")
    # make sure nothing is left spinning: interrupt every session twice at the end (the second one right
    # behind the first in half of the scenarios), then ask every open session for a value: an interrupt
    # that found nothing to stop must not stop what comes later
    quick_second = rnd.random() < 0.5
    for s in sessions:
        sc.add(0.3, "interrupt", s, prefix="i")
        sc.add(0.0 if quick_second else 0.4, "interrupt", s, prefix="i")
    for s in sessions:
        if s not in sc.closed:
            sc.eval(rnd.choice([0.0, 0.05, 0.3]), s, "V")
    # An interrupt that arrives before its session's worker has taken the spinning eval from the queue stops
    # nothing (the worker clears a stray flag when it dequeues), and on a loaded machine a new session's worker
    # can take seconds to start: sessions that were given a spinning eval get more interrupts, spread out, so
    # that the recording does not end with an eval still spinning.  Interrupts that find nothing are harmless.
    for s in sessions:
        if s in sc.spun:
            for d in (1.0, 2.0, 4.0, 8.0):
                sc.add(d, "interrupt", s, prefix="i")
    return sc


def to_events(sc, events):
    """Abstract the recorded events."""
    out = [{"ev": "reset"}]
    recvs = [m for k, m in events if k == "recv"]
    # the error text of a failed / interrupted eval: the err message right before its final done
    err_before_done = set()
    for i, m in enumerate(recvs):
        st = [nc.text(x) for x in m.get("status", [])]
        if "status" in m and ("eval-error" in st or "interrupted" in st):
            # the last message of the same request before its final one (answers to other requests, written
            # by the reader thread, may sit in between)
            for j in range(i - 1, -1, -1):
                if recvs[j].get("id") == m.get("id"):
                    if "err" in recvs[j] and "status" not in recvs[j]:
                        err_before_done.add(j)
                    break
    ri = 0
    for k, m in events:
        if k == "send":
            out.append(sc.abstract[m["id"]])
            continue
        i = ri
        ri += 1
        mid = nc.text(m.get("id", b"none"))
        sess = abstract_session(m.get("session"))
        if "status" in m:
            st = sorted(x for x in (nc.text(s) for s in m["status"]) if x in KNOWN_STATUS)
            if "new-session" in m:
                out.append({"ev": "recv", "id": mid, "session": "none", "kind": "newsession", "text": abstract_session(m["new-session"]), "status": st})
            else:
                out.append({"ev": "recv", "id": mid, "session": sess, "kind": "done", "text": "", "status": st})
        elif "out" in m:
            out.append({"ev": "recv", "id": mid, "session": sess, "kind": "out", "text": nc.text(m["out"]), "status": []})
        elif "err" in m:
            t = "#ERROR" if i in err_before_done else nc.text(m["err"])
            out.append({"ev": "recv", "id": mid, "session": sess, "kind": "err", "text": t, "status": []})
        elif "value" in m:
            out.append({"ev": "recv", "id": mid, "session": sess, "kind": "value", "text": "", "status": []})
        else:
            out.append({"ev": "recv", "id": mid, "session": sess, "kind": "other", "text": "", "status": []})
    out.append({"ev": "end"})
    return out


def record(seed, focus, sched):
    rnd = random.Random(seed)
    sc = gen_scenario(rnd, focus)
    srv = nc.Server(sched_seed=(seed if sched else None), max_ms=25)
    try:
        events, closed = nc.run_scenario(srv, sc.steps, quiet_s=0.8, max_s=40.0, tail_s=12.0)
    finally:
        srv.stop()
    return sc, events


def validate(all_events, tag, timeout=900):
    """Run TLC on the concatenated abstract trace; returns (accepted, TlcResult, unmatched)."""
    d = scratch_dir("ntr")
    try:
        path = os.path.join(d, "trace.ndjson")
        # nr = (1-based) indices of the deliveries (recv events) from this event up to the
        # next reset: the channel's contents must be a prefix of them
        upcoming = []
        for i in range(len(all_events) - 1, -1, -1):
            e = all_events[i]
            if e.get("ev") == "reset":
                e["nr"] = []
                upcoming = []
                continue
            if e.get("ev") == "recv":
                upcoming = [i + 1] + upcoming
            e["nr"] = list(upcoming[:40])
            e.pop("rem", None)
        write_ndjson(path, all_events)
        maxchunk = max([len(e.get("text", "")) for e in all_events if e.get("ev") == "recv"] + [2]) + 1
        res = tlc("NreplTrace", cfg="NreplTrace.cfg", env={"TRACE": path, "MAXCHUNK": str(maxchunk)}, workers=1, dfs=True, timeout=timeout, heap="6g", tag=tag)
    finally:
        shutil.rmtree(d, ignore_errors=True)
    unmatched = res.tag("UNMATCHED")
    if res.error in ("postcondition", "eval") and unmatched:
        return False, res, unmatched[0]
    if res.error == "invariant":
        return False, res, {"invariant": res.violated}
    if res.error is not None:
        log(res.out[-2500:])
        raise ToolError(f"NreplTrace: TLC {res.error}")
    return True, res, None
