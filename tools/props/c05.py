"""C05 Core-language programs behave as the reference semantics says.

Spec: spec/Ref.tla (big-step reference semantics), evaluated by TLC on seeded
generator programs; design-level: spec/Machine.tla refines Ref on the bounded
family (see MC_Machine).  Binding: every program is run by the real
interpreter (verif-batch run for volume, `garden run` to confirm a mismatch)
and stdout, outcome variant and failing line are compared."""
import re

from common import Check, ToolError, batch, run_program, is_crash, vacuity
import refrun


def cli_confirms(src, exp):
    """Re-run through the plain CLI; True if the CLI run also disagrees."""
    rc, out, err = run_program(src)
    if rc is None or is_crash(rc):
        return True, {"rc": rc, "stderr": err[-400:]}
    if out != exp["out"]:
        return True, {"rc": rc, "stdout": out[-400:]}
    has_err = bool(re.search(r"^(Exception|Assertion failed|Error)", err, re.M)) or "Assertion failed" in err
    if (exp["outcome"] == "ok") != (not has_err):
        return True, {"rc": rc, "stderr": err[-400:]}
    return False, {}


def run(tier, seed):
    ck = Check("C05", "model_checking", tier, seed)
    n, size = (600, 6) if tier == "quick" else (9000, 8)
    total_disc = 0
    done = 0
    chunk = 1500
    while done < n:
        m = min(chunk, n - done)
        # the second third of the programs also uses structs, field access, tuple destructuring (let and for)
        # and try blocks (generator feature "ext"); the last third adds user-defined methods, dictionaries and
        # the prelude's list / option methods and functions (feature "ext2")
        third = n // 3
        # (half of the ext2 programs also use the prelude's string methods, feature "ext3")
        feats = None if done < third else {"ext": True} if done < 2 * third else {"ext": True, "ext2": True, "ext3": "half"}
        if done < 2 * third:
            m = min(m, (third if done < third else 2 * third) - done)
        progs, srcs = refrun.gen_programs(seed, m, size, base=done, features=feats)
        res, exp = refrun.ref_expect(progs)
        ck.add_tlc(res)
        reals = batch("run", [{"id": p["id"], "src": srcs[p["id"]]} for p in progs])
        for p, real in zip(progs, reals):
            pid = p["id"]
            e = exp[pid]
            ck.evaluated()
            if e["outcome"] in ("fuel", "big"):
                total_disc += 1
                continue
            ck.validated()
            if e["out"] or e["outcome"] != "ok":
                ck.nontrivial(refrun.src_hash(srcs[pid]))
            ck.sample({"program": srcs[pid][:400], "expected": {k: e[k] for k in ("outcome", "out", "line")}})
            if not refrun.agrees(e, real):
                confirmed, detail = cli_confirms(srcs[pid], e)
                if not confirmed:
                    raise ToolError(f"batch/CLI disagreement on program {pid}")
                obs = refrun.observe(real)
                key = f"C05 prog seed={seed} id={pid} exp={e['outcome']}@{e['line']} got={obs['outcome']}@{obs['line']}"
                ck.fail(key, f"reference: {e['outcome']} line {e['line']} out={e['out'][-80:]!r}; real: {obs['outcome']} line {obs['line']} out={(obs['out'] or '')[-80:]!r} {real.get('message') or real.get('panic') or ''}",
                        {"cmd": "garden run p.gdn", "src": srcs[pid], "expected": e, "real": real, "cli": detail})
        done += m
    vacuity(total_disc * 5 <= n, f"{total_disc}/{n} programs discarded")
    ck.assumptions += ["Ref.tla PINNED clauses (argument order last-to-first, strict && ||, closure snapshot) are the implementation's documented-by-observation choices",
                       "integers stay below 1e9 in generated programs (TLC 32-bit); larger results are discarded, 64-bit arithmetic is C04"]
    return ck.finish(rule="seeded generator programs (tools/gen_prog.py) evaluated by TLC on Ref.tla and replayed into the real interpreter; "
                          "non-trivial = distinct source that prints something or ends in an error; discarded (fuel/overflow) = %d" % total_disc,
                     extra={"discarded": total_disc})


def replay(rec):
    r = rec["replay"]
    confirmed, detail = cli_confirms(r["src"], r["expected"])
    print("still violates" if confirmed else "no longer violates", detail)
    return 1 if confirmed else 0
