"""C18 Formatting is idempotent.

Spec: the law Idempotent: format(format(x)) = format(x) for every text x --
checked on the families Syntax.tla prints (trees, generated programs), the
repository's files, their re-laid-out variants and, since the law is for every
input, token-level mutations that do not parse.  `garden format --check` must
accept what the formatter produced (checked through the command line on a
seeded sample; the flag compares format(x) with x)."""
import json
import os
import random
import shutil

from common import Check, batch, garden, pmap, scratch_dir, vacuity
import fmtfam


def fmt(srcs):
    res = batch("frontend", [{"id": i, "src": s, "check": False, "formatted": True} for i, s in enumerate(srcs)], timeout_per=3.0)
    return [(r.get("formatted") if r.get("format") == "ok" else None, r) for r in res]


def run(tier, seed):
    ck = Check("C18", "model_checking", tier, seed)
    rnd = random.Random(seed * 59 + 18)
    tlcs, texts = fmtfam.family(tier, seed, with_mutations=True)
    for r in tlcs:
        ck.add_tlc(r)
    srcs = [s for _, s in texts]
    once = fmt(srcs)
    twice = fmt([o if o is not None else "" for o, _ in once])
    stable = []
    for (name, s), (o1, r1), (o2, r2) in zip(texts, once, twice):
        ck.evaluated()
        ck.validated()
        key = f"C18 {name} {s[:60]!r}"
        if r1.get("parse_errors") or "+layout" in name:
            ck.nontrivial(s)
        rep = {"src": s, "once": o1, "twice": o2}
        if o1 is None:
            ck.fail(key, f"the formatter crashed on {s[:80]!r}: {r1.get('format_panic') or r1.get('outcome')}", rep)
        elif o2 is None:
            ck.fail(key, f"the formatter crashed on its own output for {s[:80]!r}: {r2.get('format_panic') or r2.get('outcome')}", rep)
        elif o1 != o2:
            k = next(i for i in range(min(len(o1), len(o2)) + 1) if o1[i:i + 1] != o2[i:i + 1])
            ck.fail(key, f"formatting is not idempotent on {s[:80]!r}: around offset {k} the first pass gives {o1[max(0, k - 30):k + 30]!r}, the second {o2[max(0, k - 30):k + 30]!r}", rep)
        else:
            stable.append(o1)
            if len(ck.cov["samples"]) < 3 and "+layout" in name and len(s) < 160:
                ck.sample({"input": s, "formatted": o1})
    # format --check accepts formatter output
    sample = [o for o in stable if o.endswith("\n") and "// args: " not in o and "\r" not in o]
    rnd.shuffle(sample)
    sample = sample[:60 if tier == "quick" else 600]
    d = scratch_dir("c18")
    try:
        def chk(j):
            i, o = j
            p = os.path.join(d, f"f{i}.gdn")
            with open(p, "w", encoding="utf-8") as f:
                f.write(o)
            rc, out, err = garden(["format", "--check", p], timeout=30)
            return rc, err
        res = pmap(chk, list(enumerate(sample)))
    finally:
        shutil.rmtree(d, ignore_errors=True)
    for o, (rc, err) in zip(sample, res):
        ck.evaluated()
        ck.validated()
        if rc != 0:
            ck.fail(f"C18 --check {o[:60]!r}", f"`garden format --check` rejects a text the formatter produced ({rc}): {o[:120]!r} {err[-100:]}", {"src": o})
    vacuity(len(texts) > 1500 and len(sample) >= 50, f"inputs: {len(texts)}, --check runs: {len(sample)}")
    ck.assumptions += ["`format --check` strips a test footer and normalises line ends first, so it is exercised on outputs where that is the identity"]
    return ck.finish(rule="the C17 families plus token-level mutations that do not parse; every input formatted twice; a seeded sample of outputs through `garden format --check`; non-trivial = inputs with parse errors or re-laid-out")


def replay(rec):
    r = rec["replay"]
    (o1, _), = fmt([r["src"]])
    if o1 is None:
        return 1
    (o2, _), = fmt([o1])
    print(json.dumps([o1, o2])[:800])
    return 0 if o1 == o2 else 1
