"""C20 Extract variable and extract function preserve behaviour.

Spec: spec/Ref.tla is the behavioural oracle.  TLC evaluates the reference on
generated assignment-free programs that run to completion; for a
side-effect-free sub-expression, binding it to a fresh variable just before
its statement, or moving it into a fresh function of its free variables, is
meaning preserving in that semantics, so the refactored program must print
and return what Ref.tla computes for the original.  Binding: `garden
reftest-extract-variable` / `reftest-extract-function --name extracted` on
seeded pure sub-expressions (literals, variables, operators, lists, tuples,
constructors, pure method calls); the output must parse and run like the
reference."""
import random

from common import Check, batch, vacuity
import refactor as rf

PURE = {"int", "str", "bool", "var", "paren", "bin", "list", "tuple", "ctor", "mcall", "unit", "dot", "slit"}
IMPURE = {"call", "lam", "show", "print", "throw", "assert", "set", "upd", "let", "if", "while", "for", "match", "ret", "break", "continue", "letd", "ford", "try"}


def pure_targets(prog):
    user_methods = {m["n"] for m in prog.get("meths", [])}      # their bodies may print: not side-effect free

    def ok(n):
        if n["k"] not in PURE or n["k"] in ("var", "int", "bool", "unit"):
            return False
        if n["k"] == "ctor" and not n.get("args"):
            return False
        if rf.nodes({"funs": [], "main": [n]}, lambda x: x["k"] == "mcall" and x["m"] in user_methods):
            return False
        return not rf.has_kind(n, IMPURE)
    return rf.nodes(prog, ok)


def add_shapes(p):
    """Functions in which the place of the extracted definition matters: the selected expression uses a
    variable bound in the same else block / match arm / closure body, and would fail outside it."""
    import gen_prog
    g = gen_prog.Gen(0)
    g.nid = 200000
    n = g.node
    V = lambda x: n("var", n=x)
    I = lambda v: n("int", v=v)
    P = lambda op, l, r: n("paren", e=n("bin", op=op, l=l, r=r))
    t1 = P("/", V("zs"), V("k"))
    zqe = {"n": "zqe", "ps": ["k"], "pt": ["Int"], "rt": "Int", "line": 0, "b": [
        n("if", c=P("==", V("k"), I(0)), t=[I(0)], f=[n("let", n="zs", e=P("*", V("k"), I(10))), t1], inline=False, **{"else": True})]}
    t2 = P("*", V("zs"), I(2))
    zqm = {"n": "zqm", "ps": ["k"], "pt": ["Int"], "rt": "Int", "line": 0, "b": [
        n("match", s=n("mcall", m="get", recv=n("list", xs=[I(5)]), args=[V("k")]), arms=[
            {"v": "Some", "bind": "zm", "wild": False, "b": [n("let", n="zs", e=P("+", V("zm"), I(1))), t2]},
            {"v": "None", "bind": "", "wild": False, "b": [I(0)]}])]}
    t3 = P("-", V("za"), V("zs"))
    zqc = {"n": "zqc", "ps": ["k"], "pt": ["Int"], "rt": "Int", "line": 0, "b": [
        n("let", n="zc", e=n("lam", ps=["za"], rt="Int", b=[n("let", n="zs", e=P("+", V("za"), V("k"))), t3])),
        n("call", f=V("zc"), args=[I(4)])]}
    # the selection contains its own binder for a name that is also free in it: (fun(k) { k * 2 })(3) + k
    t4 = P("+", n("call", f=n("paren", e=n("lam", ps=["k"], rt="Int", b=[P("*", V("k"), I(2))])), args=[I(3)]), V("k"))
    t4["probe_fn"] = True
    zqg = {"n": "zqg", "ps": ["k"], "pt": ["Int"], "rt": "Int", "line": 0, "b": [t4]}
    for t in (t1, t2, t3):
        t["probe"] = True
    p["funs"] += [zqe, zqm, zqc, zqg]
    p["main"].append(n("show", e=n("call", f=V("zqg"), args=[I(5)])))
    for f, args in (("zqe", 7), ("zqe", 0), ("zqm", 0), ("zqm", 3), ("zqc", 2)):
        p["main"].append(n("show", e=n("call", f=V(f), args=[I(args)])))


def run(tier, seed):
    ck = Check("C20", "model_checking", tier, seed)
    rnd = random.Random(seed * 71 + 20)
    import gen_prog
    import refrun
    progs, srcs = refrun.gen_programs(seed + 201, 400 if tier == "quick" else 3000, 5, err_rate=0.0, features={"ext": True, "ext2": "half"})
    progs = [p for p in progs if not rf.has_kind(p, {"set", "upd"})]
    for p in progs:
        if p["id"] % 3 == 0:
            add_shapes(p)
            srcs[p["id"]] = gen_prog.render(p)
    tres, exp = refrun.ref_expect(progs)
    ck.add_tlc(tres)
    origs = [(p, srcs[p["id"]], exp[p["id"]]) for p in progs if exp[p["id"]]["outcome"] == "ok"]
    jobs, meta = [], []
    for p, s, e in origs:
        cand = [n for n in pure_targets(p) if "start" in n]
        rnd.shuffle(cand)
        # expressions inside `else` blocks and match arms that use a variable first: where the extracted
        # definition is inserted matters most there (it must stay inside the block that binds the variable)
        inner = set()
        for blk_owner in rf.nodes(p, lambda n: n["k"] in ("if", "match")):
            blocks = [blk_owner.get("f", [])] if blk_owner["k"] == "if" else [a["b"] for a in blk_owner["arms"]]
            for b in blocks:
                for t in rf.nodes({"funs": [], "main": b}, lambda n: True):
                    inner.add(id(t))
        cand.sort(key=lambda n: 0 if n.get("probe") else 1 if (id(n) in inner and rf.has_kind(n, {"var"})) else 2)
        fn_probes = rf.nodes(p, lambda n: n.get("probe_fn") and "start" in n)
        for n in fn_probes:
            jobs.append((["reftest-extract-function", "--name", "extracted", "FILE", str(n["start"]), str(n["end"])], s))
            meta.append((p, s, e, n, "function"))
        for n in cand[:5 if tier == "quick" else 9]:
            for what in ("variable", "function"):
                jobs.append(([f"reftest-extract-{what}", "--name", "extracted", "FILE", str(n["start"]), str(n["end"])], s))
                meta.append((p, s, e, n, what))
    res = rf.cli(jobs)
    news = [out if rc == 0 else None for rc, out, err in res]
    idx = [i for i, n in enumerate(news) if n is not None]
    runs = dict(zip(idx, rf.run_all([news[i] for i in idx])))
    parses = dict(zip(idx, batch("frontend", [{"id": i, "src": news[i], "check": False, "format": False} for i in idx], timeout_per=2.0)))
    done = {"variable": 0, "function": 0}
    refused = 0
    for i, ((p, s, e, n, what), (rc, out, err)) in enumerate(zip(meta, res)):
        ck.evaluated()
        ck.validated()
        text = s.encode()[n["start"]:n["end"]].decode()
        key = f"C20 {rf.refrun.src_hash(s)} extract {what} `{text[:40]}` at {n['start']}"
        rep = {"cmd": f"garden reftest-extract-{what} --name extracted p.gdn {n['start']} {n['end']}", "src": s, "start": n["start"], "end": n["end"], "what": what, "expected": e}
        if rc is None or rc in (101, 134) or (rc is not None and rc < 0):
            ck.fail(key, f"extract {what} crashed or hung (exit {rc}) on `{text[:60]}`: {err[-160:]}", rep)
            continue
        if rc != 0:
            refused += 1
            continue
        done[what] += 1
        ck.nontrivial(key)
        rep["refactored"] = news[i]
        if parses[i].get("parse") != "ok" or parses[i].get("parse_errors"):
            ck.fail(key, f"extract {what} of `{text[:60]}` gives a program that does not parse: {(parses[i].get('parse_errors') or [{}])[0].get('message')}", rep)
            continue
        problem = rf.same_behaviour(e, runs[i])
        if problem:
            ck.fail(key, f"after extract {what} of `{text[:60]}` the program {problem}", rep)
        elif len(ck.cov["samples"]) < 3 and len(text) > 8:
            ck.sample({"what": what, "expression": text, "refactored_tail": news[i][-200:]})
    vacuity(done["variable"] > 40 and done["function"] > 40, f"extractions performed: {done}, refused: {refused}")
    ck.assumptions += ["targets are expressions built from literals, variables, operators, parentheses, lists, tuples, constructors and built-in method calls in programs without assignments that the reference runs to completion",
                       "`extracted` does not occur in generated programs"]
    return ck.finish(rule="seeded generated assignment-free programs x seeded pure sub-expressions (3 / 6 per program) x {variable, function}; non-trivial = extractions that were performed",
                     extra={"performed": done, "refused": refused})


def replay(rec):
    r = rec["replay"]
    (rc, out, err), = rf.cli([([f"reftest-extract-{r['what']}", "--name", "extracted", "FILE", str(r["start"]), str(r["end"])], r["src"])])
    if rc != 0:
        print(rc, err[-300:])
        return 1
    res, = rf.run_all([out])
    p = rf.same_behaviour(r["expected"], res)
    print(p)
    return 1 if p else 0
