"""C25 Sandboxed runs always finish within their step budget.

Spec: Machine.tla with TickLimit / StackLimit set (the prologue of every tick
stops the evaluation with TickLimit / StackLimit before running the step).
TLC checks TicksBounded and, under weak fairness of the machine's step, the
liveness property Termination (<>(status # "running")) on diverging and
generated programs (MC_Limits).  Binding: `playground-run` and `sandboxed-test`
(tick limit 100000, stack limit 1000) on diverging and resource-hungry
programs under a wall-clock limit: the run must end by itself with a value, an
error or a limit error; exit by signal, panic or timeout is a violation."""
import json
import os
import shutil
import subprocess

from common import GARDEN, SPEC, Check, ToolError, limited, pmap, scratch_dir, tlc, tlc_ok, vacuity, write_ndjson
import gen_prog
import refrun

WALL = 60


def diverging_asts():
    g = gen_prog.Gen(0)
    n = g.node
    V = lambda x: n("var", n=x)
    I = lambda v: n("int", v=v)
    progs = []

    def prog(funs, main):
        progs.append({"id": len(progs), "funs": funs, "main": main, "uses_enum": False})

    prog([], [n("while", c=n("bool", v=True), b=[n("print", v="x")])])
    prog([], [n("let", n="i", e=I(0)), n("while", c=n("bool", v=True), b=[n("upd", n="i", op="+", e=I(1))])])
    prog([{"n": "f", "ps": ["a"], "pt": ["Int"], "rt": "Int", "line": 1, "b": [n("call", f=V("f"), args=[V("a")])]}],
         [n("show", e=n("call", f=V("f"), args=[I(1)]))])
    prog([{"n": "f", "ps": ["a"], "pt": ["Int"], "rt": "Int", "line": 1, "b": [n("call", f=V("g"), args=[V("a")])]},
          {"n": "g", "ps": ["a"], "pt": ["Int"], "rt": "Int", "line": 1, "b": [n("paren", e=n("bin", op="+", l=I(1), r=n("call", f=V("f"), args=[V("a")])))]}],
         [n("call", f=V("f"), args=[I(1)])])
    prog([], [n("let", n="xs", e=n("list", xs=[])),
              n("while", c=n("bool", v=True), b=[n("set", n="xs", e=n("mcall", m="append", recv=V("xs"), args=[I(1)]))])])
    prog([], [n("for", n="i", it=n("list", xs=[I(1), I(2), I(3)]), b=[n("while", c=n("bool", v=True), b=[n("continue")])])])
    return progs


PROGRAMS = [
    ("infinite while", "while True { }"),
    ("infinite printing loop", "let i = 0\nwhile True { i += 1 print(\"x\") }"),
    ("unbounded recursion", "fun f(n: Int): Int { f(n + 1) }\nf(0)"),
    ("mutual recursion", "fun f(n: Int): Int { g(n) }\nfun g(n: Int): Int { 1 + f(n) }\nf(0)"),
    ("closure recursion through a list", "let fs = [fun(g) { 0 }]\nfun call(h, n: Int) { h(h, n + 1) }\ncall(fun(h, n) { h(h, n + 1) }, 0)"),
    ("method recursion", "method spin(this: Int): Int { (this + 1).spin() }\n1.spin()"),
    ("nested lists to the tick budget", "let x = []\nwhile True { x = [x] }"),
    ("nested tuples to the tick budget", "let x = ()\nwhile True { x = (x,) }"),
    ("nested options to the tick budget", "let x = None\nwhile True { x = Some(x) }"),
    ("nested list built in a function then compared", "fun build(n: Int) {\n  let x = []\n  let y = []\n  let i = 0\n  while i < n { x = [x] y = [y] i += 1 }\n  x == y\n}\nbuild(9000)"),
    ("nested list built then printed", "fun build(n: Int) {\n  let x = []\n  let i = 0\n  while i < n { x = [x] i += 1 }\n  x\n}\nprintln(string_repr(build(9000)))"),
    ("long string doubling", "let s = \"ab\"\nwhile True { s = s ^ s }"),
    ("growing list", "let xs = []\nwhile True { xs = xs.append(xs.len()) }"),
    ("range to the largest int", "range(0, 9223372036854775807)"),
    ("power loop", "let n = 3\nwhile True { n = n * n }"),
    ("deep recursion with big frames", "fun f(n: Int, acc) { f(n + 1, [acc, acc]) }\nf(0, [])"),
    ("blocking read_line", "let l = read_line()\nprintln(\"got\")"),
    ("sleeping busy loop with map", "let xs = range(0, 200)\nwhile True { xs.map(fun(v) { v + 1 }) }"),
    # billions of steps without a single call or while iteration: loops over a list, nested
    ("nested for loops without calls", "let xs = []\nlet i = 0\nwhile i < 300 { xs = xs.append(i) i += 1 }\nlet n = 0\nfor a in xs { for b in xs { for c in xs { for d in xs { n += 1 } } } }\nprintln(string_repr(n))"),
    ("nested for loops with a match and an if", "let xs = []\nlet i = 0\nwhile i < 300 { xs = xs.append(Some(i)) i += 1 }\nlet n = 0\nfor a in xs { for b in xs { for c in xs { for d in xs { match d { Some(v) => { if v > 5 { n += 1 } } None => {} } } } } }\nprintln(string_repr(n))"),
    ("terminating control", "let i = 0\nwhile i < 10 { i += 1 }\nprintln(string_repr(i))"),
    ("erroring control", "let z = 1 / 0"),
]


def run_one(job):
    key, mode, src, off = job
    d = scratch_dir("c25")
    try:
        path = os.path.join(d, "p.gdn")
        with open(path, "w") as f:
            f.write(src)
        args = [GARDEN, "playground-run", "p.gdn"] if mode == "playground" else [GARDEN, "sandboxed-test", "p.gdn", str(off)]
        try:
            # a runaway allocation must fail fast instead of exhausting the machine
            p = subprocess.run(limited(args, gb=4), cwd=d, input=b"", stdout=subprocess.PIPE, stderr=subprocess.PIPE, timeout=WALL)
            out = p.stdout.decode("utf-8", "replace")
            last = out.strip().split("\n")[-1] if out.strip() else ""
            return {"rc": p.returncode, "out": out[-400:], "last": last, "err": p.stderr.decode("utf-8", "replace")[-300:], "timeout": False}
        except subprocess.TimeoutExpired as e:
            return {"rc": None, "out": (e.stdout or b"").decode("utf-8", "replace")[-200:], "err": "", "timeout": True}
    finally:
        shutil.rmtree(d, ignore_errors=True)


def outcome(r, mode):
    if r["timeout"]:
        return "timeout"
    if r["rc"] != 0:
        return f"exit {r['rc']}"
    try:
        last = json.loads(r.get("last") or r["out"].strip().split("\n")[-1])
    except (ValueError, IndexError):
        return "no result line"
    if mode == "playground":
        if last.get("error") is None:
            return "value"
        e = last["error"]
        return "tick limit" if "tick limit" in e else "stack limit" if "stack limit" in e else "sandbox" if "sandboxed" in e else "error"
    return "tests:" + last.get("description", "?")


def run(tier, seed):
    ck = Check("C25", "model_checking", tier, seed)
    # ---- design level: bounded ticks and termination under the limits
    progs = diverging_asts()
    more, _ = refrun.gen_programs(seed + 41, 30 if tier == "quick" else 200, 3)
    for p in more:
        p["id"] = len(progs)
        progs.append(p)
    d = scratch_dir("c25mc")
    try:
        path = os.path.join(d, "p.ndjson")
        write_ndjson(path, progs)
        res = tlc("MC_Limits", env={"PROGS": path}, workers=8, timeout=1500, heap="8g")
    finally:
        shutil.rmtree(d, ignore_errors=True)
    tlc_ok(res, "MC_Limits (TicksBounded, Termination)")
    ck.add_tlc(res)
    # ---- real sandboxed runs
    jobs = []
    for name, src in PROGRAMS:
        jobs.append((f"C25 playground: {name}", "playground", src, None))
        if "fun " in src or True:
            body = src.replace("\n", "\n  ")
            tsrc = f"fun target() {{\n  {body}\n}}\ntest tt {{ target() }}\n" if not src.startswith("fun ") and "\nfun " not in src and "method " not in src else src + "\nfun target() { 1 }\ntest tt { target() }\n"
            jobs.append((f"C25 sandboxed-test: {name}", "test", tsrc, tsrc.index("target")))
    # the budget is per run, not per test: thousands of tests that each spin must still end quickly
    many = "fun spin(): Int {\n  let i = 0\n  while True { i += 1 }\n  i\n}\n" + "".join(f"test t{k} {{ spin() }}\n" for k in range(3000))
    jobs.append(("C25 playground: 3000 tests that each spin share one step budget", "playground", many, None))
    jobs.append(("C25 sandboxed-test: 3000 tests that each spin share one step budget", "test", many, many.index("spin")))
    results = pmap(run_one, jobs, workers=8)
    limited = 0
    for (key, mode, src, off), r in zip(jobs, results):
        ck.evaluated()
        ck.validated()
        oc = outcome(r, mode)
        if "limit" in oc or oc.startswith("tests:"):
            limited += 1
        ck.nontrivial(key)
        if len(ck.cov["samples"]) < 4:
            ck.sample({"case": key, "program": src[:200], "outcome": oc})
        if oc == "timeout" or oc.startswith("exit") or oc == "no result line":
            ck.fail(key, f"{key}: the sandboxed run did not finish by itself: {oc} {r['err'][-160:]!r}",
                    {"cmd": "garden playground-run p.gdn" if mode == "playground" else f"garden sandboxed-test p.gdn {off}", "src": src, "real": {k: v for k, v in r.items() if k != "last"}})
    vacuity(limited >= 10, f"only {limited} runs ended with a resource limit")
    ck.assumptions += [f"wall-clock limit {WALL} s and a 4 GiB address-space limit per run on this machine; the tick budget of the sandbox is 100000 steps and its stack limit 1000 frames"]
    return ck.finish(rule="diverging and resource-hungry programs (loops, direct / mutual / closure / method recursion, nested values grown to the budget then printed or compared, doubling strings, growing lists, blocking built-ins) in playground-run and in sandboxed-test; every case distinct; "
                          "a run must end by itself with value / error / limit error")


def replay(rec):
    r = rec["replay"]
    mode = "playground" if "playground" in r["cmd"] else "test"
    off = None if mode == "playground" else int(r["cmd"].split()[-1])
    res = run_one(("replay", mode, r["src"], off))
    oc = outcome(res, mode)
    print(oc, res)
    return 1 if (oc == "timeout" or oc.startswith("exit")) else 0
