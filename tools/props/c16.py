"""C16 Programs that pass `check` raise no runtime type errors.

Spec: spec/Ref.tla classifies every way a program can fail (ek): TypeError,
Arity, ExpectedFunction, MethodError, NoCase, NoSuchVariable, NotBound are the
type-related failures of the property; DivZero, NegExponent, Thrown and
AssertionFailed are not.  TLC evaluates the reference on generated, fully
annotated programs into which the generator injects mistakes of every kind.
Binding: the real checker (hook `frontend`) judges each program; a program it
accepts without errors must not fail with a type-related kind -- neither in
the reference nor, confirmed on the same program, in the real interpreter.
A second family is judged on the implementation alone: values of the typed
expression pool of C14 / C15 flow through an if, a list literal or a match
into an annotated parameter; an accepted program must not end in a type error."""
from common import Check, batch, vacuity
import refactor as rf

TYPE_RELATED = {"TypeError", "Arity", "ExpectedFunction", "MethodError", "NoCase", "NoSuchVariable", "NotBound", "NoField"}


TYPE_ERROR_TEXT = ("Expected `", "No such variable", "has no method", "No methods defined", "does not have a field", "Incorrect type for field",
                   "requires", "takes", "No case in this `match`", "is not a function")


def inference_shapes(ck, tier, rnd):
    """Programs in which what reaches an annotated parameter was inferred from several sources: the branches
    of an if, the items of a list literal, the arms of a match (pairs of the typed expressions of c14.POOL).
    If the checker accepts the program, the run must not end in a type error."""
    from props import c14
    def below(t, u):      # t is (structurally) below u: the pairs the checker should accept; only used to pick programs
        if t["k"] == "NoValue":
            return True
        if t["k"] != u["k"] or t.get("name") != u.get("name") or len(t.get("args", [])) != len(u.get("args", [])):
            return False
        return all(below(x, y) for x, y in zip(t.get("args", []), u.get("args", [])))
    pairs = [(a, b) for a in c14.POOL for b in c14.POOL if a is not b]
    rnd.shuffle(pairs)
    fitting = [(a, b) for a, b in pairs if below(b[1], a[1])]
    pairs = fitting + [x for x in pairs if x not in fitting][:(90 if tier == "quick" else len(pairs))]
    progs = []
    for a, b in pairs:
        head = f"enum E3 {{ A3, B3, C3 }}\nfun zuse(x: {c14.show(a[1])}): Int {{\n  1\n}}\n"
        progs.append(("if", a, b, head + f"let zc = 1 < 2\nlet zp = if zc {{ {b[0]} }} else {{ {a[0]} }}\nprintln(string_repr(zuse(zp)))\n"))
        progs.append(("list", a, b, head + f"for zi in [{a[0]}, {b[0]}, {a[0]}] {{\n  println(string_repr(zuse(zi)))\n}}\n"))
        progs.append(("match", a, b, head + f"let ze = B3\nlet zm = match ze {{\n  A3 => {{ {a[0]} }}\n  B3 => {{ {b[0]} }}\n  C3 => {{ {a[0]} }}\n}}\nprintln(string_repr(zuse(zm)))\n"))
    srcs = [x[3] for x in progs]
    chk = batch("frontend", [{"id": i, "src": s, "format": False} for i, s in enumerate(srcs)], timeout_per=3.0)
    runs = rf.run_all(srcs)
    accepted = failing = 0
    for (form, a, b, src), c, r in zip(progs, chk, runs):
        ck.evaluated()
        ck.validated()
        key = f"C16 inferred through {form}: {b[0]} where {a[0]} is declared"
        if c.get("check") != "ok" or c.get("parse") != "ok":
            ck.fail(key, f"{key}: the checker did not finish: {c.get('check_panic') or c.get('parse_panic') or c.get('outcome')}", {"src": src})
            continue
        errors = [d for d in c.get("diags", []) if d.get("severity") == "Error"] + list(c.get("parse_errors") or [])
        msg = str(r.get("message") or "")
        type_failure = r.get("outcome") == "exception" and any(t in msg for t in TYPE_ERROR_TEXT)
        if type_failure:
            failing += 1
            ck.nontrivial(key)
        if errors:
            continue
        accepted += 1
        if type_failure:
            ck.fail(key, f"{key}: `check` reports no error, yet the run ends with: {msg[:140]}", {"cmd": "garden check p.gdn; garden run p.gdn", "src": src, "real": r})
    vacuity(accepted > 10 and failing > 20, f"inference shapes: {accepted} accepted, {failing} fail with a type error when run")
    return {"inference_shapes": len(progs), "inference_shapes_accepted": accepted, "inference_shapes_failing_at_run_time": failing}


def run(tier, seed):
    ck = Check("C16", "model_checking", tier, seed)
    import random
    import gen_prog
    import refrun
    rnd = random.Random(seed * 83 + 16)
    progs, srcs = refrun.gen_programs(seed + 161, 400 if tier == "quick" else 4000, 5, err_rate=0.35, features={"ext": True, "ext2": "half"})
    # one more kind of mistake, placed where the closure's own return type matters: a `return` of the wrong
    # type as the first statement of a closure (whose declared return type differs from what surrounds it)
    for p in progs:
        lams = rf.nodes(p, lambda n: n["k"] == "lam")
        if lams and rnd.random() < 0.4:
            lam = rnd.choice(lams)
            g = gen_prog.Gen(0)
            g.nid = 100000 + p["id"] * 10
            wrong = g.node("str", v="w") if rnd.random() < 0.5 else (g.node("bool", v=True) if lam.get("rt") != "Bool" else g.node("int", v=1))
            lam["b"].insert(0, g.node("ret", e=wrong))
            srcs[p["id"]] = gen_prog.render(p)
    # and a shape where a container's element type is only fixed by an assignment inside a nested block
    for p in progs:
        if p["id"] % 5 == 0:
            g = gen_prog.Gen(0)
            g.nid = 500000
            n = g.node
            V = lambda x: n("var", n=x)
            elem = n("str", v="item") if p["id"] % 10 == 0 else n("int", v=4)
            want = "List<Int>" if p["id"] % 10 == 0 else "List<String>"
            p["funs"].append({"n": "zsum", "ps": ["xs"], "pt": [want], "rt": "Int", "line": 0, "b": [n("mcall", m="len", recv=V("xs"), args=[])]})
            p["main"] = [n("let", n="zo", e=n("list", xs=[])),
                         n("if", c=n("bool", v=True), t=[n("set", n="zo", e=n("mcall", m="append", recv=V("zo"), args=[elem]))], f=[], inline=False, **{"else": False}),
                         n("show", e=n("call", f=V("zsum"), args=[V("zo")]))] + p["main"]
            srcs[p["id"]] = gen_prog.render(p)
    tres, exp = refrun.ref_expect(progs)
    ck.add_tlc(tres)
    origs = [(p, srcs[p["id"]], exp[p["id"]]) for p in progs if exp[p["id"]]["outcome"] not in ("fuel", "big")]
    srcs = [s for _, s, _ in origs]
    chk = batch("frontend", [{"id": i, "src": s, "format": False} for i, s in enumerate(srcs)], timeout_per=3.0)
    runs = rf.run_all(srcs)
    accepted = rejected = typefail = 0
    kinds = set()
    for (p, s, e), c, r in zip(origs, chk, runs):
        ck.evaluated()
        ck.validated()
        key = f"C16 {rf.refrun.src_hash(s)}"
        if c.get("check") != "ok" or c.get("parse") != "ok":
            ck.fail(key, f"the checker did not finish: {c.get('check_panic') or c.get('parse_panic') or c.get('outcome')}", {"src": s})
            continue
        errors = [d for d in c.get("diags", []) if d.get("severity") == "Error"] + list(c.get("parse_errors") or [])
        is_type = e["outcome"] == "exception" and e["ek"] in TYPE_RELATED
        if is_type:
            typefail += 1
            kinds.add(e["ek"])
            ck.nontrivial(key)          # a program the checker has to reject
        if errors:
            rejected += 1
            continue
        accepted += 1
        if is_type:
            real = f"{r.get('outcome')}: {str(r.get('message'))[:100]}"
            ck.fail(f"C16 {e['ek']} line {e['line']} in {rf.refrun.src_hash(s)}",
                    f"`check` reports no error, yet the program fails with a type-related error ({e['ek']} at line {e['line']}; real run: {real})",
                    {"cmd": "garden check p.gdn; garden run p.gdn", "src": s, "expected": e, "real": r})
        elif e["outcome"] == "ok" and len(ck.cov["samples"]) < 2:
            ck.sample({"accepted_program_lines": s.count("\n"), "outcome": e["outcome"]})
    shapes = inference_shapes(ck, tier, rnd)
    vacuity(accepted > 50 and typefail > 50 and len(kinds) >= 4, f"accepted {accepted}, rejected {rejected}, programs failing type-relatedly {typefail} of kinds {sorted(kinds)}")
    ck.assumptions += ["functions and lambdas of generated programs are fully annotated; local lets are not (the checker infers them)",
                       "programs the reference cannot finish within its fuel are skipped"]
    return ck.finish(rule="seeded generated programs with injected mistakes (error rate 0.35); judged: those the checker accepts without errors; non-trivial = programs that fail type-relatedly in the reference (which the checker therefore has to reject)",
                     extra=dict({"accepted": accepted, "rejected": rejected, "type_related_failures": typefail, "kinds": sorted(kinds)}, **shapes))


def replay(rec):
    r = rec["replay"]
    c = batch("frontend", [{"id": 0, "src": r["src"], "format": False}])[0]
    res, = rf.run_all([r["src"]])
    errs = [d for d in c.get("diags", []) if d.get("severity") == "Error"]
    print(len(errs), res.get("outcome"), res.get("message"))
    return 1 if not errs and res.get("outcome") == "exception" else 0
