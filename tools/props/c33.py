"""C33 Printing a syntax tree and parsing it gives the same tree.

Spec: spec/Syntax.tla -- ExprTrees(d) / StmtTrees(d) (bounded families of the
abstract grammar), P / PrintProg (canonical text), S / SexpItems (the tree in
the parser's own vocabulary).  TLC enumerates every tree of the family and also
prints seeded generator programs (deeper nesting), each with its text and its
tree.  Binding: the real parser must accept the text without errors and build
exactly that tree.  Print must be injective on the family (checked on the
enumerated items), otherwise the property would be ill-posed."""
from common import Check, ToolError, vacuity
import refrun
import syntaxrun


def run(tier, seed):
    ck = Check("C33", "model_checking", tier, seed)
    groups = []
    # (expressions stay at depth 1 in both tiers: at depth 2 the family contains operator trees nested to the
    #  right and operator receivers, which have no text without parentheses -- Print is not injective there;
    #  operator nesting is the chain family's business)
    r1, i1 = syntaxrun.items("expr", depth=1)
    ck.add_tlc(r1)
    groups.append(("expr", i1))
    r2, i2 = syntaxrun.items("stmt", depth=1 if tier == "quick" else 2)
    ck.add_tlc(r2)
    if len(i2) > 20000:
        # TLC enumerates the whole family (92 000 statement trees at depth 2); the real parser gets a seeded sample
        import random
        random.Random(seed * 31 + 33).shuffle(i2)
        i2 = i2[:20000]
    groups.append(("stmt", i2))
    # left-nested operator chains are trees of the grammar too (BinOp(BinOp(a, op1, b), op2, c) prints as `a op1 b op2 c`)
    r4, i4 = syntaxrun.items("chain", maxchain=3 if tier == "quick" else 5)
    ck.add_tlc(r4)
    groups.append(("chain", i4))
    progs, _ = refrun.gen_programs(seed + 21, 150 if tier == "quick" else 2000, 5, err_rate=0.3, features={"ext": True, "ext2": "half"})
    r3, i3 = syntaxrun.items("prog", progs=progs)
    ck.add_tlc(r3)
    groups.append(("prog", i3))
    for gname, its in groups:
        # injectivity of Print on the enumerated family
        by_src = {}
        for it in its:
            k = tuple(it["sexp"])
            if by_src.setdefault(it["src"], k) != k:
                raise ToolError(f"Print is not injective: {it['src']!r} is the text of two different trees")
        real = syntaxrun.parse_real([it["src"] for it in its])
        for it, (nerr, sx, raw) in zip(its, real):
            ck.evaluated()
            ck.validated()
            src = it["src"]
            key = f"C33 {gname} " + src[:200]
            if src.count("\n") > 1 or src.count("(") > 1:
                ck.nontrivial(src)
            if len(ck.cov["samples"]) < 5 and gname != "prog" and len(src) > 25:
                ck.sample({"family": gname, "text": src, "tree": it["sexp"]})
            if nerr is None:
                ck.fail(key, f"parser crashed on {src!r}: {raw.get('panic')}", {"cmd": "garden reftest-ast p.gdn", "src": src})
            elif nerr != 0:
                ck.fail(key, f"canonical text does not parse: {src!r}: {raw.get('parse_errors')[:1]}", {"cmd": "garden reftest-ast p.gdn", "src": src, "expected": it["sexp"]})
            elif sx != it["sexp"]:
                bad = [(a, b) for a, b in zip(sx + [None] * 9, it["sexp"] + [None] * 9) if a != b][:1]
                ck.fail(key, f"{src!r} parses to a different tree: got {bad[0][0]} expected {bad[0][1]}",
                        {"cmd": "garden reftest-ast p.gdn", "src": src, "expected": it["sexp"], "real": sx})
    ck.assumptions += ["the families cover the core grammar of tools/gen_prog.py's node kinds (literals, calls, method calls, operators, parentheses, lists, tuples, variants, let/assign/update, if/else, while, for, match, return, break, continue, assert, closures, functions); structs, dicts, imports, tests and type parameters are exercised by C12/C34/C26",
                       "Sexp mirrors the constructor names of src/parser/ast.rs; tools/rustdebug.py only removes positions, ids and punctuation"]
    return ck.finish(rule="ExprTrees(1) and StmtTrees(d) (d = 1 quick; 2 thorough, of which the real parser gets a seeded sample of 20 000), operator chains, plus seeded generator programs printed by the specification; non-trivial = texts with more than one line or more than one parenthesis")


def replay(rec):
    r = rec["replay"]
    (nerr, sx, raw), = syntaxrun.parse_real([r["src"]])
    print(nerr, sx)
    return 0 if nerr == 0 and sx == r.get("expected") else 1
