"""C28 The LSP server answers every request and never dies.

Spec: spec/Lsp.tla (one response per request id, none for notifications except
one publishDiagnostics per didOpen/didChange, exit status from shutdown) and
spec/LspTrace.tla.  Binding (impl -> spec): a real `garden lsp` process is
driven with seeded message sequences (well-formed requests of every method at
in-range and out-of-range positions, unknown documents, unknown methods,
malformed parameters, garbage, documents from the generator and a corpus of
hostile texts: non-ASCII outside strings, unterminated constructs); the framed
traffic is logged and TLC must explain it.  Each publishDiagnostics payload is
compared with `garden check --json` on the same text (columns converted from
bytes to UTF-16 units)."""
import json
import os
import random
import re
import shutil

from common import Check, ToolError, garden, pmap, scratch_dir, tlc, tlc_ok, vacuity, write_ndjson
from lsp_client import Lsp
import refrun

HOSTILE = [
    "let x = 1 é\n", "let s = \"é\U0001F600\" let y = s\n", "fun f( {\n", "let x = \"unterminated\n", "}}}}\n", "",
    "// only a comment \U0001F600\n", "let   y = 2\n", "fun f(x: Int): Int { x + }\nf(1\n", "match x { Some(\n", "let t = (1,\n",
    "enum E { A, B(Int) }\nstruct P { x: Int }\nlet p = P{ x: 1 }\np.x.\n", "import \"nosuch.gdn\" as n\nn::f()\n", "test t { assert(1 == 1) }\n",
    "let x = 1\r\nlet y = x\r\n", "\"\\", "fun f() { f() }\n",
]
METHODS = ["textDocument/hover", "textDocument/definition", "textDocument/completion", "textDocument/formatting", "textDocument/rename",
           "textDocument/codeAction", "textDocument/documentHighlight", "textDocument/documentSymbol", "textDocument/references",
           "textDocument/signatureHelp"]


def check_diagnostics(text):
    """Diagnostics of `garden check --json` as (line, col16, end_line, end_col16, severity) tuples."""
    d = scratch_dir("chk")
    try:
        path = os.path.join(d, "verif_doc.gdn")
        with open(path, "wb") as f:
            f.write(text.encode("utf-8"))
        rc, out, err = garden(["check", "--json", path], timeout=30, cwd=d)
    finally:
        shutil.rmtree(d, ignore_errors=True)
    if rc not in (0, 1):
        return None, f"check exited with {rc}: {err[-200:]}"
    lines = text.encode("utf-8").split(b"\n")
    res = []
    for l in out.split("\n"):
        l = l.strip()
        if not l.startswith("{"):
            continue
        j = json.loads(l)

        def col16(line_no, col):
            if line_no - 1 >= len(lines):
                return col
            return len(lines[line_no - 1][:col].decode("utf-8", "ignore").encode("utf-16-le")) // 2
        res.append((j["line_number"] - 1, col16(j["line_number"], j["column"]), j["end_line_number"] - 1,
                    col16(j["end_line_number"], j["end_column"]), j["severity"]))
    return sorted(res), None


def lsp_diags(params):
    sev = {1: "error", 2: "warning", 3: "info", 4: "hint"}
    out = []
    for d in params.get("diagnostics", []):
        r = d["range"]
        out.append((r["start"]["line"], r["start"]["character"], r["end"]["line"], r["end"]["character"], sev.get(d.get("severity"), "?")))
    return sorted(out)


def scenario(rnd, texts):
    """List of (message dict or raw bytes, abstract send event)."""
    msgs = []
    nid = [0]

    def req(method, params, known=True):
        nid[0] += 1
        rid = nid[0]
        msgs.append(({"jsonrpc": "2.0", "id": rid, "method": method, "params": params},
                     {"ev": "send", "kind": "request", "id": str(rid), "method": method, "uri": "", "text": ""}))

    def note(method, params, uri="", text=""):
        msgs.append(({"jsonrpc": "2.0", "method": method, "params": params},
                     {"ev": "send", "kind": "notification", "id": "", "method": method, "uri": uri, "text": text}))

    req("initialize", {"capabilities": {}, "rootUri": None})
    note("initialized", {})
    uris = []
    open_docs = {}
    ntext = [0]
    for _ in range(rnd.randint(4, 10)):
        c = rnd.random()
        if c < 0.25 or not uris:
            uri = f"file:///tmp/verif_doc{len(uris)}.gdn"
            text = rnd.choice(texts)
            ntext[0] += 1
            tid = f"t{ntext[0]}"
            uris.append(uri)
            open_docs[uri] = text
            note("textDocument/didOpen", {"textDocument": {"uri": uri, "languageId": "garden", "version": 1, "text": text}}, uri, tid)
            msgs[-1][1]["doc_text"] = text
        elif c < 0.40:
            uri = rnd.choice(uris)
            text = rnd.choice(texts)
            ntext[0] += 1
            tid = f"t{ntext[0]}"
            open_docs[uri] = text
            note("textDocument/didChange", {"textDocument": {"uri": uri, "version": 2}, "contentChanges": [{"text": text}]}, uri, tid)
            msgs[-1][1]["doc_text"] = text
        elif c < 0.45:
            uri = rnd.choice(uris)
            note("textDocument/didClose", {"textDocument": {"uri": uri}}, uri, "")
            msgs[-1][1]["doc_text"] = ""
            msgs[-1][1]["closing"] = True
        elif c < 0.85:
            uri = rnd.choice(uris + ["file:///tmp/never_opened.gdn"])
            text = open_docs.get(uri, "")
            nl = text.count("\n")
            line = rnd.choice([0, rnd.randint(0, nl + 1), nl + 5])
            ch = rnd.choice([0, 1, 3, 7, 200])
            # half of the positions are places where something is: just after an opening parenthesis (inside a
            # call's arguments, also of calls without arguments), or at the start of a word
            spots = [mm.end() if mm.group(0) == "(" else mm.start() for mm in re.finditer(r"\(|[A-Za-z_]\w*", text)]
            if spots and rnd.random() < 0.5:
                off = rnd.choice(spots)
                line = text.count("\n", 0, off)
                ch = len(text[text.rfind("\n", 0, off) + 1:off].encode("utf-16-le")) // 2
            m = rnd.choice(METHODS)
            p = {"textDocument": {"uri": uri}, "position": {"line": line, "character": ch}}
            if m == "textDocument/formatting":
                p = {"textDocument": {"uri": uri}, "options": {"tabSize": 2, "insertSpaces": True}}
            if m == "textDocument/rename":
                p["newName"] = "renamed_v"
            if m == "textDocument/codeAction":
                p = {"textDocument": {"uri": uri}, "range": {"start": {"line": line, "character": ch}, "end": {"line": line, "character": ch + rnd.choice([0, 3, 9])}},
                     "context": {"diagnostics": []}}
            if m == "textDocument/references":
                p["context"] = {"includeDeclaration": True}
            req(m, p)
        elif c < 0.90:
            req("textDocument/" + rnd.choice(["nosuch", "semanticTokens/full", "foldingRange"]), {})
        elif c < 0.95:
            req(rnd.choice(METHODS), rnd.choice([{}, {"textDocument": 5}, None, {"textDocument": {"uri": 7}, "position": "x"}]))
        else:
            note(rnd.choice(["$/cancelRequest", "workspace/didChangeConfiguration", "$/setTrace"]), {"id": 1})
        if rnd.random() < 0.2:
            # a correctly framed body that is not a JSON-RPC message: broken syntax, a body cut short, an empty
            # body, JSON that is not an object
            full = json.dumps({"jsonrpc": "2.0", "id": 900 + len(msgs), "method": "textDocument/hover", "params": {"textDocument": {"uri": "file:///tmp/x.gdn"}}})
            raw = rnd.choice([b'{"id": 7, oops}', full[:rnd.randint(1, len(full) - 1)].encode(), b"", b"[1, 2]", b"42", b'"text"', b'{"jsonrpc": "2.0", "method": "x", "params": "unterminated'])
            msgs.append(({"__raw__": raw.decode("utf-8", "replace")}, {"ev": "send", "kind": "garbage", "id": "", "method": "", "uri": "", "text": ""}))
    end = rnd.random()
    if end < 0.7:
        req("shutdown", None)
        if rnd.random() < 0.5:
            # a client that keeps talking between `shutdown` and `exit`: every request is still owed one response
            for _ in range(rnd.randint(1, 3)):
                m = rnd.choice(METHODS + ["shutdown", "textDocument/nosuch"])
                uri = rnd.choice(uris + ["file:///tmp/never_opened.gdn"])
                p = None if m == "shutdown" else {"textDocument": {"uri": uri}, "position": {"line": 0, "character": 1}}
                if m == "textDocument/formatting":
                    p = {"textDocument": {"uri": uri}, "options": {"tabSize": 2, "insertSpaces": True}}
                if m == "textDocument/rename":
                    p["newName"] = "renamed_v"
                if m == "textDocument/codeAction":
                    p = {"textDocument": {"uri": uri}, "range": {"start": {"line": 0, "character": 0}, "end": {"line": 0, "character": 3}}, "context": {"diagnostics": []}}
                if m == "textDocument/references":
                    p["context"] = {"includeDeclaration": True}
                req(m, p)
        note("exit", None)
    elif end < 0.9:
        note("exit", None)
    return msgs


def sweep_scenario(rnd, texts):
    """One document, every request method at a sample of the places where something is (the start of a word,
    just inside an opening parenthesis): systematic where scenario() is random."""
    msgs = []
    nid = [0]

    def req(method, params):
        nid[0] += 1
        msgs.append(({"jsonrpc": "2.0", "id": nid[0], "method": method, "params": params},
                     {"ev": "send", "kind": "request", "id": str(nid[0]), "method": method, "uri": "", "text": ""}))

    def note(method, params, uri="", text=""):
        msgs.append(({"jsonrpc": "2.0", "method": method, "params": params},
                     {"ev": "send", "kind": "notification", "id": "", "method": method, "uri": uri, "text": text}))

    req("initialize", {"capabilities": {}, "rootUri": None})
    note("initialized", {})
    uri = "file:///tmp/verif_sweep.gdn"
    text = rnd.choice([t for t in texts if "(" in t and len(t) > 40] or texts)
    note("textDocument/didOpen", {"textDocument": {"uri": uri, "languageId": "garden", "version": 1, "text": text}}, uri, "t1")
    msgs[-1][1]["doc_text"] = text
    spots = [mm.end() if mm.group(0) == "(" else mm.start() for mm in re.finditer(r"\(|[A-Za-z_]\w*", text)]
    rnd.shuffle(spots)
    # parentheses first: argument lists, also empty ones
    spots.sort(key=lambda o: 0 if text[o - 1:o] == "(" else 1)
    for off in spots[:24]:
        line = text.count("\n", 0, off)
        ch = len(text[text.rfind("\n", 0, off) + 1:off].encode("utf-16-le")) // 2
        for m in METHODS:
            if m in ("textDocument/formatting", "textDocument/documentSymbol"):
                continue
            p = {"textDocument": {"uri": uri}, "position": {"line": line, "character": ch}}
            if m == "textDocument/rename":
                p["newName"] = "renamed_v"
            if m == "textDocument/codeAction":
                p = {"textDocument": {"uri": uri}, "range": {"start": {"line": line, "character": ch}, "end": {"line": line, "character": ch + 2}}, "context": {"diagnostics": []}}
            if m == "textDocument/references":
                p["context"] = {"includeDeclaration": True}
            req(m, p)
    req("shutdown", None)
    note("exit", None)
    return msgs


def record(seed, texts):
    rnd = random.Random(seed)
    msgs = sweep_scenario(rnd, texts) if seed % 6 == 5 else scenario(rnd, texts)
    c = Lsp()
    events = [{"ev": "reset"}]
    diag_texts = {}           # uri -> list of texts in the order opened/changed
    diag_seen = {}
    diag_payloads = []
    try:
        for m, ab in msgs:
            events.append({k: v for k, v in ab.items() if k not in ("doc_text", "closing")})
            if "doc_text" in ab:
                diag_texts.setdefault(ab["uri"], []).append((ab["text"], ab["doc_text"]))
            ok = c.send(m) if "__raw__" not in m else c.send(None, raw=m["__raw__"].encode())
            if not ok:
                break
            want_id = m.get("id")
            got = c.read(6.0 if want_id is not None else 0.25, until=(lambda x, w=want_id: w is not None and x.get("id") == w and "method" not in x))
            if want_id is not None and c.alive() and not any(x.get("id") == want_id and "method" not in x for x in got):
                # slow, not silent (a loaded machine): wait longer before the request counts as unanswered
                got += c.read(30.0, until=(lambda x, w=want_id: x.get("id") == w and "method" not in x))
            for g in got:
                events.append(abstract_recv(g, diag_texts, diag_seen, diag_payloads))
        tail = c.read(0.6)
        for g in tail:
            events.append(abstract_recv(g, diag_texts, diag_seen, diag_payloads))
        code = None
        if msgs and msgs[-1][0].get("method") == "exit":
            try:
                code = c.proc.wait(timeout=30)
            except Exception:
                code = None
            # what the server wrote before it exited but the client had not read yet (a slow machine):
            # it belongs before the exit event
            for g in c.read(1.0):
                events.append(abstract_recv(g, diag_texts, diag_seen, diag_payloads))
            events.append({"ev": "exit", "code": code if code is not None else -99})
        alive = c.alive()
        rc = c.proc.poll()
    finally:
        c.stop()
    return msgs, events, diag_payloads, alive, rc


def abstract_recv(g, diag_texts, diag_seen, diag_payloads):
    if g.get("method") == "textDocument/publishDiagnostics":
        uri = g["params"]["uri"]
        n = diag_seen.get(uri, 0)
        diag_seen[uri] = n + 1
        lst = diag_texts.get(uri, [])
        tid, text = lst[n] if n < len(lst) else ("t?", None)
        diag_payloads.append((uri, tid, text, g["params"]))
        return {"ev": "recv", "kind": "diagnostics", "id": "", "ok": True, "uri": uri, "text": tid}
    if "id" in g and "method" not in g:
        return {"ev": "recv", "kind": "response", "id": "" if g["id"] is None else str(g["id"]), "ok": "error" not in g, "uri": "", "text": ""}
    return {"ev": "recv", "kind": "other", "id": str(g.get("id", "")), "ok": False, "uri": "", "text": json.dumps(g)[:100]}


def validate(events, tag):
    d = scratch_dir("ltr")
    try:
        path = os.path.join(d, "trace.ndjson")
        write_ndjson(path, events)
        res = tlc("LspTrace", cfg="LspTrace.cfg", env={"TRACE": path}, workers=1, dfs=True, timeout=300, heap="4g", tag=tag)
    finally:
        shutil.rmtree(d, ignore_errors=True)
    un = res.tag("UNMATCHED")
    if res.error in ("postcondition", "eval") and un:
        return False, res, un[0]
    if res.error == "invariant":
        return False, res, {"invariant": res.violated}
    if res.error is not None:
        raise ToolError(f"LspTrace: TLC {res.error}: {res.out[-600:]}")
    return True, res, None


def run(tier, seed):
    ck = Check("C28", "model_checking", tier, seed)
    progs, srcs = refrun.gen_programs(seed + 51, 12, 4, err_rate=0.3)
    texts = HOSTILE + [srcs[p["id"]] for p in progs]
    n = 30 if tier == "quick" else 300

    def one(s):
        msgs, events, diags, alive, rc = record(s, texts)
        ok, res, un = validate(events, f"c28-{s}")
        return s, msgs, events, diags, ok, res, un, rc

    results = pmap(one, [seed * 1009 + i for i in range(n)], workers=6)
    ndiag = 0
    for s, msgs, events, diags, ok, res, un, rc in results:
        ck.evaluated()
        ck.validated()
        ck.add_tlc(res)
        key = f"C28 scenario seed={s}"
        ck.nontrivial(key)
        if len(ck.cov["samples"]) < 3:
            ck.sample({"seed": s, "trace": [(e["ev"], e.get("kind"), e.get("method") or e.get("id"), e.get("text", "")) for e in events if e["ev"] != "reset"][:16]})
        if not ok:
            ck.fail(key, f"{key}: the recorded LSP traffic is not a behaviour of Lsp.tla (process exit status {rc}); first unexplained event: {json.dumps(un)[:300]}",
                    {"cmd": "garden lsp", "seed": s, "messages": [m for m, _ in msgs], "unmatched": un})
            continue
        for uri, tid, text, params in diags:
            if text is None:
                ck.fail(key + " extra diagnostics", f"{key}: publishDiagnostics for {uri} without a didOpen/didChange", {"cmd": "garden lsp", "seed": s})
                continue
            ndiag += 1
            if tid == "":
                if params.get("diagnostics"):
                    ck.fail(key + " close", f"{key}: didClose published non-empty diagnostics", {"cmd": "garden lsp", "seed": s})
                continue
            want, problem = check_diagnostics(text)
            got = lsp_diags(params)
            if want is None:
                ck.fail(f"C28 check crashes on {text[:60]!r}", f"garden check: {problem}", {"cmd": "garden check --json f.gdn", "src": text})
            elif want != got:
                ck.fail(f"C28 diagnostics differ for {text[:80]!r}", f"publishDiagnostics {got[:4]} differs from garden check --json {want[:4]} for {text[:80]!r}",
                        {"cmd": "garden lsp / garden check --json", "src": text, "lsp": got, "check": want})
    # ---- binding demonstration: corrupted copies of accepted traces must be rejected
    import copy
    rejected = tried = 0
    for s, msgs, events, diags, ok, res, un, rc in results[:12]:
        if not ok:
            continue
        resp = [i for i, e in enumerate(events) if e.get("ev") == "recv" and e.get("kind") == "response" and e.get("id")]
        dg = [i for i, e in enumerate(events) if e.get("ev") == "recv" and e.get("kind") == "diagnostics"]
        variants = []
        if resp:
            c = copy.deepcopy(events)
            del c[resp[0]]
            variants.append(("a response dropped", c))
            c = copy.deepcopy(events)
            c.insert(resp[0] + 1, copy.deepcopy(events[resp[0]]))
            variants.append(("a response duplicated", c))
            c = copy.deepcopy(events)
            c[resp[-1]]["id"] = c[resp[-1]]["id"] + "9"
            variants.append(("a response with another id", c))
        if dg:
            c = copy.deepcopy(events)
            c[dg[0]]["text"] = "t999"
            variants.append(("diagnostics for another text", c))
        for name, c in variants[:2] if tried >= 6 else variants:
            tried += 1
            ok2, _, _ = validate(c, f"c28-corrupt-{s}-{tried}")
            if ok2:
                raise ToolError(f"binding is vacuous: a corrupted LSP trace ({name}, seed {s}) was accepted by LspTrace")
            rejected += 1
    vacuity(tried >= 6, "no corrupted LSP trace could be built")
    vacuity(ndiag > n, f"only {ndiag} publishDiagnostics payloads were compared")
    ck.assumptions += ["diagnostics are compared by range (UTF-16 columns) and severity with `garden check --json`; message texts are not compared",
                       "the server is single threaded, so trace validation is linear; requests are sent one at a time"]
    return ck.finish(rule="seeded sequences of 6-14 messages: initialize, didOpen / didChange / didClose over 17 hostile texts and 12 generated programs, every request method at in-range and out-of-range positions and on never-opened documents, unknown methods, malformed params, unknown notifications, shutdown / exit endings (half of them with further requests between shutdown and exit); every scenario distinct; corrupted copies of accepted traces (dropped / duplicated / re-identified responses, diagnostics for another text) must be rejected", extra={"corrupted_traces_rejected": rejected})


def replay(rec):
    print("replay: re-run the seed with ./check C28")
    return 1
