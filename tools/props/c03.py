"""C03 Operator chains are left-associative with uniform precedence.

Spec: spec/Syntax.tla LeftFold -- the tree of `x1 op1 x2 ... opn xn` is
((x1 op1 x2) op2 x3) ... for every operator mix; explicit parentheses are
Parentheses nodes.  TLC (MC_Syntax, mode "chain") enumerates every chain of
length 2..N over three operator classes (complete for tree shape) instantiated
with the 21 concrete operators in rotation, with plain operands and with a
call / method call / parenthesised sub-chain / negative literal at each
position, and prints its text and its left fold.  Binding: the real parser's
tree must equal the fold; value-level confirmation: integer chains over
+ - * are evaluated by `garden run` and compared with the fold's value."""
import itertools

from common import Check, ToolError, batch, run_program, vacuity
import syntaxrun


def fold_value(vals, ops):
    # mirrors Syntax.LeftFold for the three total integer operators (values stay small)
    acc = vals[0]
    for v, op in zip(vals[1:], ops):
        acc = acc + v if op == "+" else acc - v if op == "-" else acc * v
    return acc


def run(tier, seed):
    ck = Check("C03", "model_checking", tier, seed)
    maxchain = 4 if tier == "quick" else 6
    res, its = syntaxrun.items("chain", maxchain=maxchain)
    ck.add_tlc(res)
    srcs = [it["src"] + "\n" for it in its]
    real = syntaxrun.parse_real(srcs)
    long_chains = 0
    for it, (nerr, sx, raw) in zip(its, real):
        ck.evaluated()
        ck.validated()
        src = it["src"]
        nops = src.count(" ") // 2
        key = "C03 chain " + src
        if nops >= 3:
            long_chains += 1
            ck.nontrivial(src)
        if len(ck.cov["samples"]) < 4 and nops == 3 and "(" in src:
            ck.sample({"chain": src, "expected_tree": it["sexp"][0]})
        if nerr is None:
            ck.fail(key, f"parser crashed on {src!r}: {raw.get('panic')}", {"cmd": "garden reftest-ast p.gdn", "src": src})
        elif nerr != 0 or sx != it["sexp"]:
            ck.fail(key, f"{src!r}: parser built {sx} but the left fold is {it['sexp']} ({nerr} parse errors)",
                    {"cmd": "garden reftest-ast p.gdn", "src": src, "expected": it["sexp"], "real": sx})
    # ---- value level
    recs, want = [], []
    for n in range(2, maxchain + 2):
        for ops in itertools.product("+-*", repeat=n - 1):
            vals = [(i * 3 + 2) % 7 + 1 for i in range(n)]
            expr = " ".join(str(v) + (" " + o if o else "") for v, o in zip(vals, list(ops) + [""])).strip()
            recs.append({"id": len(recs), "src": f"println(string_repr({expr}))"})
            want.append((expr, fold_value(vals, ops)))
    out = batch("run", recs)
    for (expr, w), r in zip(want, out):
        ck.evaluated()
        if not (r.get("outcome") == "ok" and r.get("stdout") == f"{w}\n"):
            rc, o, e = run_program(f"println(string_repr({expr}))")
            ck.fail("C03 value " + expr, f"{expr} evaluates to {(r.get('stdout') or '').strip()!r}, left-associative value is {w}",
                    {"cmd": "garden run p.gdn", "src": f"println(string_repr({expr}))", "expected": str(w), "cli_stdout": o})
    vacuity(long_chains > 100, "too few chains with three or more operators")
    ck.assumptions += ["three operator classes are complete for tree shape because the parser treats all 21 operators uniformly (token_as_binary_op); the rotation makes every concrete operator appear"]
    return ck.finish(rule=f"all chains of length 2..{maxchain} over 3 operator classes x 7 rotations of the 21 operators x operand patterns (ints, variables, one call / method call / parenthesised / negative-literal operand at each position); "
                          "non-trivial = chains with at least three operators", exhaustive=True)


def replay(rec):
    r = rec["replay"]
    (nerr, sx, raw), = syntaxrun.parse_real([r["src"] + "\n"])
    print(nerr, sx)
    return 0 if "expected" in r and sx == r["expected"] else 1
