"""C19 Rename changes exactly the occurrences of one variable.

Spec: spec/Ref.tla is the behavioural oracle: renaming a local variable or a
parameter to a fresh name is an alpha-conversion, so the renamed program must
behave as Ref.tla says the ORIGINAL behaves (output, outcome, failing line,
value).  TLC evaluates the reference on generated programs with shadowing,
closures and nested scopes (the generator's shadow-closure and reuse
patterns).  Binding: `garden reftest-rename --new-name zz9` at seeded
occurrences (definitions and uses) of local names; the result must differ from
the original only in identifier tokens of that name becoming zz9, the token
under the cursor among them, and must run like the reference.  (That the LSP
returns the same edits is checked by C29.)"""
import random
import re

from common import Check, batch, vacuity
import refactor as rf

NEW = "zz9"


def local_names(prog):
    names = set()
    for f in prog["funs"]:
        names.update(f["ps"])
    for m in prog.get("meths", []):
        names.update(m["ps"])
        names.add(m["this"])
    for n in rf.nodes(prog, lambda n: n["k"] in ("letd", "ford")):
        names.update(n["ns"])
    for n in rf.nodes(prog, lambda n: n["k"] in ("let", "for", "lam", "match")):
        if n["k"] in ("let", "for"):
            names.add(n["n"])
        elif n["k"] == "lam":
            names.update(n["ps"])
        else:
            for a in n["arms"]:
                if a.get("bind"):
                    names.add(a["bind"])
    return names - {"tr"}


def add_scope_shapes(p):
    """Functions built around one name (zx) that is bound several times: twice in one nested block, by a
    pattern, by a loop, by a closure parameter -- with the outer binding used again afterwards."""
    import gen_prog
    g = gen_prog.Gen(0)
    g.nid = 600000
    n = g.node
    V = lambda x: n("var", n=x)
    I = lambda v: n("int", v=v)
    P = lambda op, l, r: n("paren", e=n("bin", op=op, l=l, r=r))
    zs1 = {"n": "zs1", "ps": ["k"], "pt": ["Int"], "rt": "Int", "line": 0, "b": [
        n("let", n="zx", e=I(1)),
        n("if", c=P(">", V("k"), I(0)), inline=False, f=[], **{"else": False},
          t=[n("let", n="zx", e=I(10)), n("let", n="zx", e=P("+", V("zx"), I(1))), n("show", e=V("zx"))]),
        P("+", V("zx"), I(100))]}
    zs2 = {"n": "zs2", "ps": ["zx"], "pt": ["Int"], "rt": "Int", "line": 0, "b": [
        n("match", s=n("mcall", m="get", recv=n("list", xs=[I(5)]), args=[V("zx")]), arms=[
            {"v": "Some", "bind": "zx", "wild": False, "b": [n("show", e=P("*", V("zx"), I(2)))]},
            {"v": "None", "bind": "", "wild": False, "b": [n("show", e=V("zx"))]}]),
        n("for", n="zx", it=n("list", xs=[I(7), I(8)]), b=[n("show", e=V("zx"))]),
        n("let", n="zc", e=n("lam", ps=["zx"], rt="Int", b=[P("+", V("zx"), I(1))])),
        P("+", n("call", f=V("zc"), args=[I(30)]), V("zx"))]}
    p["funs"] += [zs1, zs2]
    for f, a in (("zs1", 1), ("zs1", 0), ("zs2", 0), ("zs2", 3)):
        p["main"].append(n("show", e=n("call", f=V(f), args=[I(a)])))


def run(tier, seed):
    ck = Check("C19", "model_checking", tier, seed)
    rnd = random.Random(seed * 67 + 19)
    import gen_prog
    import refrun
    progs, srcs = refrun.gen_programs(seed + 191, 120 if tier == "quick" else 1200, 5, err_rate=0.1, features={"ext": True, "ext2": "half"})
    for p in progs:
        if p["id"] % 4 == 0:
            add_scope_shapes(p)
            srcs[p["id"]] = gen_prog.render(p)
    tres, exp = refrun.ref_expect(progs)
    ck.add_tlc(tres)
    origs = [(p, srcs[p["id"]], exp[p["id"]]) for p in progs if exp[p["id"]]["outcome"] not in ("fuel", "big")]
    toks = batch("frontend", [{"id": i, "src": s, "tokens": True, "check": False, "format": False} for i, (_, s, _) in enumerate(origs)], timeout_per=2.0)
    jobs, meta = [], []
    for (p, s, e), t in zip(origs, toks):
        names = local_names(p)
        cand = [tk for tk in (t.get("tokens") or []) if tk["text"] in names]
        rnd.shuffle(cand)
        recv = {m["this"] for m in p.get("meths", [])}
        first = lambda tk: tk["text"] == "zx" or tk["text"] in recv       # every occurrence of the shapes' name and of method receivers first
        cand.sort(key=lambda tk: 0 if first(tk) else 1)
        for tk in cand[:(4 if tier == "quick" else 8) + sum(1 for tk in cand if first(tk))]:
            jobs.append((["reftest-rename", "--new-name", NEW, "FILE", str(tk["start"])], s))
            meta.append((p, s, e, tk))
    res = rf.cli(jobs)
    news = [out if rc == 0 else None for rc, out, err in res]
    idx = [i for i, n in enumerate(news) if n is not None]
    runs = dict(zip(idx, rf.run_all([news[i] for i in idx])))
    newtoks = dict(zip(idx, batch("frontend", [{"id": i, "src": news[i], "tokens": True, "check": False, "format": False} for i in idx], timeout_per=2.0)))
    oldtoks = {}
    for (p, s, e), t in zip(origs, toks):
        oldtoks[s] = [tk["text"] for tk in (t.get("tokens") or [])]
    renamed = refused = 0
    for i, ((p, s, e, tk), (rc, out, err)) in enumerate(zip(meta, res)):
        ck.evaluated()
        ck.validated()
        key = f"C19 {rf.refrun.src_hash(s)} rename {tk['text']} at {tk['start']}"
        rep = {"cmd": f"garden reftest-rename --new-name {NEW} p.gdn {tk['start']}", "src": s, "offset": tk["start"], "expected": e}
        if rc is None or rc in (101, 134) or (rc is not None and rc < 0):
            ck.fail(key, f"rename crashed or hung (exit {rc}) on `{tk['text']}` at offset {tk['start']}: {err[-160:]}", rep)
            continue
        if rc != 0:
            refused += 1
            continue
        renamed += 1
        new = news[i]
        rep["renamed"] = new
        a, b = oldtoks[s], [x["text"] for x in (newtoks[i].get("tokens") or [])]
        if len(a) != len(b):
            ck.fail(key, f"renaming `{tk['text']}` changed the number of tokens ({len(a)} -> {len(b)})", rep)
            continue
        diff = [(x, y) for x, y in zip(a, b) if x != y]
        if any(x != tk["text"] or y != NEW for x, y in diff) or not diff:
            ck.fail(key, f"renaming `{tk['text']}` changed other text: {diff[:3]}", rep)
            continue
        ck.nontrivial(key)
        if len(diff) >= 2 and len(ck.cov["samples"]) < 3:
            ck.sample({"name": tk["text"], "offset": tk["start"], "occurrences_changed": len(diff), "of_same_name": a.count(tk["text"])})
        problem = rf.same_behaviour(e, runs[i])
        if problem:
            ck.fail(key, f"after renaming `{tk['text']}` (offset {tk['start']}, {len(diff)} of {a.count(tk['text'])} occurrences) the program {problem}", rep)
    vacuity(renamed > 200, f"renames performed: {renamed} (refused: {refused})")
    ck.assumptions += ["zz9 does not occur in generated programs (fresh name)",
                       "which occurrences belong to the definition is judged through behaviour: a missed or extra occurrence changes what the program prints, fails with an unknown variable, or changes a closure's captured value"]
    return ck.finish(rule="seeded generated programs (shadowing, closures, nested scopes, also failing ones) x seeded occurrences of local names (4 / 8 per program); non-trivial = renames that were performed",
                     extra={"renamed": renamed, "refused": refused})


def replay(rec):
    r = rec["replay"]
    (rc, out, err), = rf.cli([(["reftest-rename", "--new-name", NEW, "FILE", str(r["offset"])], r["src"])])
    if rc != 0:
        print(rc, err[-300:])
        return 1
    res, = rf.run_all([out])
    p = rf.same_behaviour(r["expected"], res)
    print(p)
    return 1 if p else 0
