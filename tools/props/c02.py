"""C02 Evaluation ends in a value or a Garden error, never a crash.

Spec: Machine.tla NoStuck -- on every program of the family every tick is
defined (TLC evaluates each step; an undefined step, e.g. popping an empty
value stack, aborts the run and is reported) -- and Builtins.tla, whose call
matrix (every built-in x every argument kind at every position x arity +-1)
TLC enumerates.  Binding: each call, each generated program and the integer
boundary grid are run by the real interpreter; a Rust panic, abort or signal
is a violation, confirmed with `garden run` (exit 101 / 134)."""
import os
import shutil

from common import Check, ToolError, batch, garden, is_crash, run_program, scratch_dir, tlc, tlc_ok, vacuity, write_ndjson
import catalogue
import refrun

MIN = "(0 - 9223372036854775807 - 1)"
MAX = "9223372036854775807"
BOUNDARY = [MIN, "(0 - 9223372036854775807)", "(0 - 4294967297)", "(0 - 2)", "(0 - 1)", "0", "1", "2", "3", "63", "64",
            "4294967296", "3037000500", "4611686018427387904", "9223372036854775806", MAX]
OPS = ["+", "-", "*", "/", "%", "**", "<", "<=", ">", ">=", "==", "!="]


def crashed(r):
    return r.get("outcome") in ("panic", "died")


def confirm_cli(src, cwd=None):
    rc, out, err = run_program(src, timeout=60, cwd=cwd)
    return is_crash(rc), {"rc": rc, "stderr": err[-500:]}


def deep_programs():
    out = []
    for d in (10, 100, 1000, 3000, 20000):
        for ctor, name in (("[x]", "list"), ("(x,)", "tuple"), ("Some(x)", "option")):
            base = "[]" if name == "list" else ("()" if name == "tuple" else "None")
            for use, uname in (("println(string_repr(x))", "display"), ("println(string_repr(x == y))", "equality"), ("let z = x", "drop")):
                src = (f"let x = {base}\nlet y = {base}\nlet i = 0\nwhile i < {d} {{\n  x = {ctor}\n  y = {ctor.replace('x', 'y')}\n  i += 1\n}}\n{use}\n")
                out.append((f"deep {name} depth={d} use={uname}", src))
    return out


def run(tier, seed):
    ck = Check("C02", "model_checking", tier, seed)
    # ---- model: NoStuck on the program family (every step defined)
    n = 150 if tier == "quick" else 1500
    progs, srcs = refrun.gen_programs(seed + 11, n // 2, 5, err_rate=0.6)
    # the other half also uses structs, field access, tuple destructuring and try blocks
    p2, s2 = refrun.gen_programs(seed + 11, n - n // 2, 5, err_rate=0.6, base=n // 2, features={"ext": True, "ext2": "half"})
    progs += p2
    srcs.update(s2)
    d = scratch_dir("c02")
    try:
        path = os.path.join(d, "p.ndjson")
        write_ndjson(path, progs)
        res = tlc("MC_Machine", env={"PROGS": path}, workers=8, timeout=1500)
        tlc_ok(res, "MC_Machine (NoStuck / RefinesRef)")
        ck.add_tlc(res)
        # ---- call matrix
        mres, calls = catalogue.call_matrix()
        ck.add_tlc(mres)
        cwd = os.path.join(d, "cwd")
        os.makedirs(cwd)
        recs, keys = [], []
        for c in calls:
            if c["eff"] == "stdin":
                continue
            pre, expr = catalogue.render_call(c)
            for wrap in ("{e}", "let v = {e}", "fun f() {{ {e} }}\nf()"):
                recs.append({"id": len(recs), "src": pre + wrap.format(e=expr)})
                keys.append(("call " + catalogue.call_key(c) + " ctx=" + wrap.split("{")[0].strip(), c))
        # ---- integer grid at the limits
        for a in BOUNDARY:
            for b in BOUNDARY:
                for op in OPS:
                    recs.append({"id": len(recs), "src": f"println(string_repr({a} {op} {b}))"})
                    keys.append((f"int {a} {op} {b}", None))
                for op in ("+=", "-="):
                    recs.append({"id": len(recs), "src": f"let x = {a}\nx {op} {b}\nprintln(string_repr(x))"})
                    keys.append((f"int x={a} x {op} {b}", None))
        # ---- generated programs with many injected errors
        for p in progs:
            recs.append({"id": len(recs), "src": srcs[p["id"]]})
            keys.append((f"prog seed={seed} id={p['id']}", None))
        for rec in recs:
            # a step budget turns runaway loops (range(0, MAX)) into a Garden-level
            # outcome instead of a harness timeout
            rec["tick_limit"] = 300000
        results = batch("run", recs, cwd=cwd, timeout_per=1.0, chunk=100)
        nerr = 0
        for rec, (key, c), r in zip(recs, keys, results):
            ck.evaluated()
            ck.validated()
            if r.get("outcome") in ("exception", "assert"):
                nerr += 1
                ck.nontrivial(key)
            elif key.startswith("int") or key.startswith("call"):
                ck.nontrivial(key)
            if len(ck.cov["samples"]) < 4 and key.startswith("call") and r.get("outcome") == "exception":
                ck.sample({"case": key, "src": rec["src"], "outcome": r.get("outcome"), "message": r.get("message")})
            if crashed(r):
                conf, detail = confirm_cli(rec["src"], cwd=cwd)
                if not conf and r.get("outcome") == "panic":
                    # in-process panic that the CLI run does not show: still report, with both
                    detail["note"] = "panic seen in-process only"
                ck.fail("C02 " + key, f"{key}: interpreter crashed: {r.get('panic') or r.get('stderr_tail') or r}",
                        {"cmd": "garden run p.gdn", "src": rec["src"], "real": r, "cli": detail})
        # ---- deeply nested values (CLI, one process each: a stack overflow kills the process)
        deep = deep_programs() if tier == "thorough" else [x for x in deep_programs() if "depth=20000" not in x[0]]
        from common import pmap
        dres = pmap(lambda kv: run_program(kv[1], timeout=60), deep)
        for (key, src), (rc, out, err) in zip(deep, dres):
            ck.evaluated()
            ck.validated()
            ck.nontrivial(key)
            if is_crash(rc):
                ck.fail("C02 " + key, f"{key}: exit status {rc}: {err[-200:]}", {"cmd": "garden run p.gdn", "src": src, "rc": rc})
        vacuity(nerr > 500, f"only {nerr} runs ended in a Garden-level error")
    finally:
        shutil.rmtree(d, ignore_errors=True)
    ck.assumptions += ["a timeout (e.g. range(0, MAX)) is non-termination, not a crash: outside the sandbox a program may run forever (C25/C32 cover termination)",
                       "effectful built-ins run in a scratch directory"]
    return ck.finish(rule="call matrix from Builtins.tla x 3 call contexts, 16x16 boundary integers x 14 operators, generated programs with injected errors, nested values of depth 10..20000; "
                          "non-trivial = distinct case that reached the built-in / operator (value or Garden error)")


def replay(rec):
    conf, detail = confirm_cli(rec["replay"]["src"])
    print("still crashes" if conf else "no longer crashes", detail)
    return 1 if conf else 0
