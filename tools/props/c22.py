"""C22 `check --fix` edits are safe.

Spec: spec/Ref.tla is the behavioural oracle.  TLC evaluates the reference on
generated programs that run to completion; lint bait that the reference
semantics makes inert (unused literal statements, unused lets of pure
expressions, duplicated operands of || and &&, list length comparisons, unused type
parameters in several layouts) is
then added to the text, so the baited program -- and every program obtained by
applying the checker's automatic fixes to it -- must still print and return
what Ref.tla computes for the original.  Binding: `garden check --fix
--stdout`, repeated until the text stops changing (at most 6 rounds): every
intermediate text must parse and run like the reference."""
import random
import re

from common import Check, batch, vacuity
import refactor as rf

STMT = re.compile(r"^(\s+)(let |println\(|print\(|if |while |for |assert\(|[a-z_][a-z0-9_]* = )")
# (a match whose value is discarded, with one-line cases ending in a literal: dropping a case would send its
#  scrutinee to the fallback case, which prints)
MATCH_BAIT = 'match [9].get({k}) {\n  Some(zq{k}) => { print("") 1 }\n  None => { 0 }\n  _ => { print("zw") 2 }\n}'
BAIT = ["7", '"unused"', "[1, 2]", "(1, 2)", MATCH_BAIT, MATCH_BAIT, "let zq{k} = 5", "let zq{k} = [1].len()", "let zq{k} = True || True", "let zq{k} = (1 < 2) && (1 < 2)",
        "let zq{k} = [1, 2].len() == 0", "let zq{k} = [].len() > 0"]


def bait(rnd, src):
    """Insert inert statements before existing statement lines inside blocks (never last in a block)."""
    lines = src.split("\n")
    spots = [i for i, l in enumerate(lines) if STMT.match(l)]
    rnd.shuffle(spots)
    k = 0
    for i in sorted(spots[:rnd.randint(1, 4)], reverse=True):
        ind = STMT.match(lines[i]).group(1)
        k += 1
        lines.insert(i, "\n".join(ind + l for l in rnd.choice(BAIT).replace("{k}", str(k)).split("\n")))
    # unused type parameters on a function, in several layouts: inert, and the fix removes them
    funs = [i for i, l in enumerate(lines) if re.match(r"^(fun|method) \w+\(", l)]
    if funs and rnd.random() < 0.5:
        i = rnd.choice(funs)
        tp = rnd.choice(["<TU>", "< TU>", "<TU >", " <TU>", "<TU, TV>", "<TU,\n  TV>", "<\n  TU\n>", "<TU\n  ,>"])
        lines[i] = re.sub(r"^((?:fun|method) \w+)\(", lambda m: m.group(1) + tp + "(", lines[i], count=1)
    return "\n".join(lines)


def add_tail_shapes(p):
    """Functions whose last expression is an `if` or a `match` ending in `return`: the places where a lint
    about unnecessary returns has to know what is in tail position (an else-less `if` is not)."""
    import gen_prog
    g = gen_prog.Gen(0)
    g.nid = 300000
    n = g.node
    V = lambda x: n("var", n=x)
    I = lambda v: n("int", v=v)
    P = lambda op, l, r: n("paren", e=n("bin", op=op, l=l, r=r))
    zt1 = {"n": "zt1", "ps": ["k"], "pt": ["Int"], "rt": "", "line": 0, "b": [
        n("if", c=P(">", V("k"), I(5)), t=[n("print", v="t1 "), n("ret", e=n("str", v="big"))], f=[], inline=False, **{"else": False})]}
    zt2 = {"n": "zt2", "ps": ["k"], "pt": ["Int"], "rt": "Int", "line": 0, "b": [
        n("if", c=P(">", V("k"), I(5)), t=[n("ret", e=I(1))], f=[n("ret", e=I(2))], inline=False, **{"else": True})]}
    zt3 = {"n": "zt3", "ps": ["k"], "pt": ["Int"], "rt": "Int", "line": 0, "b": [
        n("match", s=n("mcall", m="get", recv=n("list", xs=[I(5)]), args=[V("k")]), arms=[
            {"v": "Some", "bind": "zm", "wild": False, "b": [n("ret", e=V("zm"))]},
            {"v": "None", "bind": "", "wild": False, "b": [n("ret", e=I(0))]}])]}
    zt4 = {"n": "zt4", "ps": ["k"], "pt": ["Int"], "rt": "Int", "line": 0, "b": [n("ret", e=P("+", V("k"), I(1)))]}
    # comparisons of a list length with 0 / 1, literal on either side: the lint rewrites some of them to
    # is_empty() / is_non_empty(), and the printed truth value must survive
    k = 0
    for xs in ([], [7], [7, 8]):
        for lit in (0, 1):
            for op in ("<", "<=", ">", ">=", "==", "!="):
                k += 1
                if k % 3 != (g.nid // 7) % 3 and False:
                    continue
                ln = n("mcall", m="len", recv=n("list", xs=[I(x) for x in xs]), args=[])
                e = n("bin", op=op, l=I(lit), r=ln) if k % 2 else n("bin", op=op, l=ln, r=I(lit))
                p["main"].append(n("show", e=n("paren", e=e)))
    p["funs"] += [zt1, zt2, zt3, zt4]
    for f, a in (("zt1", 9), ("zt1", 1), ("zt2", 9), ("zt2", 1), ("zt3", 0), ("zt3", 4), ("zt4", 1)):
        p["main"].append(n("show", e=n("call", f=V(f), args=[I(a)])))


def run(tier, seed):
    ck = Check("C22", "model_checking", tier, seed)
    rnd = random.Random(seed * 79 + 22)
    import gen_prog
    import refrun
    progs, srcs = refrun.gen_programs(seed + 221, 150 if tier == "quick" else 1500, 5, err_rate=0.0, features={"ext": True, "ext2": "half"})
    for p in progs:
        if p["id"] % 4 == 0:
            add_tail_shapes(p)
            srcs[p["id"]] = gen_prog.render(p)
    tres, exp = refrun.ref_expect(progs)
    ck.add_tlc(tres)
    origs = [(p, srcs[p["id"]], exp[p["id"]]) for p in progs if exp[p["id"]]["outcome"] == "ok"]
    cases = []
    for p, s, e in origs:
        cases.append((s, e, "as generated"))
        for _ in range(1 if tier == "quick" else 3):
            cases.append((bait(rnd, s), e, "baited"))
    # the baited text itself must behave like the reference (otherwise the bait is not inert: a harness error)
    base = rf.run_all([c[0] for c in cases])
    live = []
    for c, r in zip(cases, base):
        if rf.same_behaviour(c[1], r) is None:
            live.append(c)
    vacuity(len(live) * 10 >= len(cases) * 9, f"{len(cases) - len(live)} of {len(cases)} baited programs do not behave like their original")
    state = [{"cur": s, "exp": e, "kind": kind, "orig": s, "rounds": 0, "done": False, "changed": False} for s, e, kind in live]
    for rnd_no in range(6):
        todo = [st for st in state if not st["done"]]
        if not todo:
            break
        res = rf.cli([(["check", "--fix", "--stdout", "FILE"], st["cur"]) for st in todo])
        news = []
        for st, (rc, out, err) in zip(todo, res):
            key = f"C22 {rf.refrun.src_hash(st['orig'])} round {rnd_no + 1}"
            if rc is None or rc in (101, 134) or (rc is not None and rc < 0):
                ck.fail(key, f"check --fix crashed or hung (exit {rc}): {err[-160:]}", {"cmd": "garden check --fix --stdout p.gdn", "src": st["cur"], "expected": st["exp"]})
                st["done"] = True
                continue
            new = out if out.strip() else st["cur"]
            if new == st["cur"]:
                st["done"] = True
                continue
            st["rounds"] += 1
            st["changed"] = True
            st["prev"], st["cur"] = st["cur"], new
            news.append(st)
        if news:
            runs = rf.run_all([st["cur"] for st in news])
            parses = batch("frontend", [{"id": i, "src": st["cur"], "check": False, "format": False} for i, st in enumerate(news)], timeout_per=2.0)
            for st, r, pz in zip(news, runs, parses):
                ck.evaluated()
                ck.validated()
                key = f"C22 {rf.refrun.src_hash(st['orig'])} round {st['rounds']}"
                rep = {"cmd": "garden check --fix --stdout p.gdn", "src": st["prev"], "fixed": st["cur"], "expected": st["exp"]}
                ck.nontrivial(key)
                if pz.get("parse") != "ok" or pz.get("parse_errors"):
                    ck.fail(key, f"check --fix produced a program that does not parse: {(pz.get('parse_errors') or [{}])[0].get('message')}", rep)
                    st["done"] = True
                    continue
                problem = rf.same_behaviour(st["exp"], r)
                if problem:
                    ck.fail(key, f"after check --fix (round {st['rounds']}) the program {problem}", rep)
                    st["done"] = True
                elif len(ck.cov["samples"]) < 3 and st["kind"] == "baited":
                    a, b = st["prev"].split("\n"), st["cur"].split("\n")
                    ck.sample({"removed_or_changed_lines": [l for l in a if l not in b][:4], "round": st["rounds"]})
    for st in state:
        if not st["done"]:
            ck.fail(f"C22 {rf.refrun.src_hash(st['orig'])} no fixed point", "check --fix still changes the text after 6 rounds",
                    {"cmd": "garden check --fix --stdout p.gdn", "src": st["cur"], "expected": st["exp"]})
    fixed = sum(1 for st in state if st["changed"])
    vacuity(fixed > 100, f"programs that check --fix changed: {fixed}")
    ck.assumptions += ["bait statements are inert in the reference semantics (checked on the real interpreter before fixing); unused imports are not generated"]
    return ck.finish(rule="seeded generated programs that run to completion, as generated and with seeded inert lint bait (1 / 3 variants); fixes applied repeatedly up to a fixed point; non-trivial = rounds in which the text changed",
                     extra={"programs_changed": fixed, "max_rounds": max([st["rounds"] for st in state] + [0])})


def replay(rec):
    r = rec["replay"]
    (rc, out, err), = rf.cli([(["check", "--fix", "--stdout", "FILE"], r["src"])])
    if rc in (None, 101, 134):
        print(rc, err[-300:])
        return 1
    res, = rf.run_all([out if out.strip() else r["src"]])
    p = rf.same_behaviour(r["expected"], res)
    print(p)
    return 1 if p else 0
