"""C32 Prelude string and list functions match their specification.

Spec: spec/Prelude.tla -- reference definitions transcribed from the doc
comments of src/__prelude.gdn (strings as character sequences, 0-based
character indexes), with the documentation's laws (join . split = identity,
trim idempotence, sortedness / permutation, ...) model checked against the
definitions by MC_Prelude on every enumerated argument tuple.

Binding (spec -> implementation): TLC prints every call with the result the
specification defines; the interpreter evaluates the same call (hook
`verif-batch run`, with a step budget: the functions must terminate) and the
printed string_repr must be the specification's value, or an exception where
the specification says so."""
import json

from common import SPEC, Check, ToolError, batch, tlc, tlc_ok, vacuity
import os

CH = {"a": "a", "b": "b", "E": "é", "_": " ", "N": "\n"}
FUNS = {"inc": "fun(x: Int): Int { x + 1 }", "dbl": "fun(x: Int): Int { x * 2 }", "neg": "fun(x: Int): Int { 0 - x }",
        "pos": "fun(x: Int): Bool { x > 0 }", "even": "fun(x: Int): Bool { x % 2 == 0 }", "all": "fun(_: Int): Bool { True }"}
GROUPS = ["str1", "str2", "overlap", "replace", "substring", "join", "list"]
TICKS = 200000


def mc(group, maxlen):
    name = f"MC_Prelude_{group}_{os.getpid()}.cfg"
    with open(os.path.join(SPEC, name), "w") as f:
        f.write(f'CONSTANTS\n  Group = "{group}"\n  MaxLen = {maxlen}\nINIT Init\nNEXT Next\nINVARIANT Laws\nINVARIANT Emit\nCHECK_DEADLOCK FALSE\n')
    try:
        res = tlc("MC_Prelude", cfg=name, workers=8, timeout=3000, heap="8g")
    finally:
        os.remove(os.path.join(SPEC, name))
    tlc_ok(res, f"MC_Prelude group={group} (laws)")
    return res


def s_lit(chars):
    return '"' + "".join("\\n" if c == "N" else CH[c] for c in chars) + '"'


def il(xs):
    return "[" + ", ".join(str(x) for x in xs) + "]"


def sl(xs):
    return "[" + ", ".join(s_lit(x) for x in xs) + "]"


def expr(c):
    f, a = c["f"], c["a"]
    if f in ("trim_left", "trim_right", "trim", "chars", "len", "lines"):
        return f"{s_lit(a[0])}.{f}()"
    if f in ("starts_with", "ends_with", "contains", "index_of", "split", "split_once", "strip_prefix", "strip_suffix"):
        return f"{s_lit(a[0])}.{f}({s_lit(a[1])})"
    if f == "replace":
        return f"{s_lit(a[0])}.replace({s_lit(a[1])}, {s_lit(a[2])})"
    if f == "substring":
        return f"{s_lit(a[0])}.substring({a[1]}, {a[2]})"
    if f == "join":
        return f"{s_lit(a[0])}.join({sl(a[1])})"
    if f in ("first", "last", "enumerate"):
        return f"{il(a[0])}.{f}()"
    if f == "list_len":
        return f"{il(a[0])}.len()"
    if f == "sort_nums":
        return f"sort_nums({il(a[0])})"
    if f == "get":
        return f"{il(a[0])}.get({a[1]})"
    if f == "list_contains":
        return f"{il(a[0])}.contains({a[1]})"
    if f == "list_index_of":
        return f"{il(a[0])}.index_of({a[1]})"
    if f == "slice":
        return f"{il(a[0])}.slice({a[1]}, {a[2]})"
    if f == "concat":
        return f"{il(a[0])}.concat({il(a[1])})"
    if f in ("map", "filter"):
        return f"{il(a[0])}.{f}({FUNS[a[1]]})"
    if f in ("range", "min", "max"):
        return f"{f}({a[0]}, {a[1]})"
    raise ToolError("no rendering for " + f)


def show(v):
    """string_repr of a specification value."""
    t = v["t"]
    if t == "s":
        return '"' + "".join("\\n" if c == "N" else CH[c] for c in v["v"]) + '"'
    if t == "i":
        return str(v["v"])
    if t == "b":
        return "True" if v["v"] else "False"
    if t == "l":
        return "[" + ", ".join(show(x) for x in v["v"]) + "]"
    if t == "some":
        return "Some(" + show(v["v"]) + ")"
    if t == "none":
        return "None"
    if t == "tup":
        return "(" + ", ".join(show(x) for x in v["v"]) + ")"
    raise ToolError("no display for " + t)


def evaluate(calls):
    """Calls that cannot raise are evaluated ten to a program; a program whose
    output is not ten lines is taken apart and its calls are run one by one."""
    single = [c for c in calls if c["r"]["t"] == "err"]
    multi = [c for c in calls if c["r"]["t"] != "err"]
    got = {}
    progs = [multi[i:i + 10] for i in range(0, len(multi), 10)]
    recs = [{"id": i, "src": "".join(f"println(string_repr({expr(c)}))\n" for c in p), "tick_limit": TICKS} for i, p in enumerate(progs)]
    res = batch("run", recs, timeout_per=3.0)
    for p, r in zip(progs, res):
        lines = (r.get("stdout") or "").split("\n")
        # string_repr never prints a raw newline, so one line per call
        if r.get("outcome") == "ok" and len(lines) == len(p) + 1:
            for c, l in zip(p, lines):
                got[id(c)] = {"outcome": "ok", "text": l}
        else:
            single += p
    recs = [{"id": i, "src": f"println(string_repr({expr(c)}))\n", "tick_limit": TICKS} for i, c in enumerate(single)]
    res = batch("run", recs, timeout_per=3.0)
    for c, r in zip(single, res):
        got[id(c)] = {"outcome": r.get("outcome"), "text": (r.get("stdout") or "").rstrip("\n"), "message": r.get("message") or r.get("panic") or r.get("stderr_tail")}
    return got


def run(tier, seed):
    ck = Check("C32", "model_checking", tier, seed)
    calls = []
    for g in GROUPS:
        r = mc(g, 2 if tier == "quick" else (3 if g in ("str2", "replace", "substring", "overlap") else 4))
        ck.add_tlc(r)
        calls += list(r.tag("CALL"))
    vacuity(len(calls) > 20000, f"calls enumerated by TLC ({len(calls)})")
    got = evaluate(calls)
    fns = set()
    for c in calls:
        ck.evaluated()
        ck.validated()
        fns.add(c["f"])
        g = got[id(c)]
        e = expr(c)
        key = f"C32 {c['f']} {e}"
        if "\u00e9" in e or "\\n" in e:
            ck.nontrivial(e)
        if len(ck.cov["samples"]) < 5 and c["f"] in ("split", "replace", "slice", "lines", "substring") and len(e) > 22:
            ck.sample({"call": e, "specification": "exception" if c["r"]["t"] == "err" else show(c["r"])})
        rep = {"call": e, "program": f"println(string_repr({e}))\n", "spec": c["r"], "real": g}
        if g["outcome"] in ("tick", "timeout", "stack"):
            ck.fail(key, f"{e} does not terminate (outcome {g['outcome']} after {TICKS} steps)", rep)
        elif g["outcome"] in ("panic", "died"):
            ck.fail(key, f"{e} crashes the interpreter: {g.get('message')}", rep)
        elif c["r"]["t"] == "err":
            if g["outcome"] != "exception":
                ck.fail(key, f"{e} should raise an exception, got {g['outcome']} {g['text']!r}", rep)
        elif g["outcome"] != "ok":
            ck.fail(key, f"{e} = {show(c['r'])} in the specification, the interpreter reports {g['outcome']}: {g.get('message')}", rep)
        elif g["text"] != show(c["r"]):
            ck.fail(key, f"{e} = {show(c['r'])} in the specification, the interpreter prints {g['text']}", rep)
    vacuity(len(fns) >= 32, f"functions exercised: {sorted(fns)}")
    ck.assumptions += ["whitespace for trim* is the space character; an empty needle means index 0 / the characters (PINNED in Prelude.tla)",
                       "map and filter are exercised with three function arguments each",
                       "strings over {a, b, e-acute, space, newline}, needles up to 2 characters (plus strings of up to 5-6 characters over {a, b} with needles up to 3, for self-overlapping needles), integers at the index boundaries {-2..4, 99}, integer lists up to 3 items"]
    return ck.finish(rule="every argument tuple enumerated by MC_Prelude: strings up to 2 (quick) / 3-4 (thorough) characters x needles up to 2, index pairs over 8 boundary integers, lists up to 3 items; non-trivial = calls with a multi-byte character or a newline",
                     extra={"functions": sorted(fns)})


def replay(rec):
    r = rec["replay"]
    res = batch("run", [{"id": 0, "src": r["program"], "tick_limit": TICKS}], timeout_per=5.0)[0]
    print(json.dumps(res)[:800])
    if r["spec"]["t"] == "err":
        return 0 if res.get("outcome") == "exception" else 1
    return 0 if res.get("outcome") == "ok" and (res.get("stdout") or "").rstrip("\n") == show(r["spec"]) else 1
