"""C06 Block-local variables never outlive their block.

Spec: Ref.tla drops a block's scope on EVERY exit (EvalBlock = PopBlk o ...),
Machine.tla states the mechanism (blocks popped by if/match/loop steps and by
break/continue unwinding) and TLC checks Machine against Ref and TopBalanced
on the whole exit matrix.  The matrix: nesting chains of 1..3 block constructs
(while, for, if, else, match arm, wildcard arm), optionally inside a function,
left by fall-through / break / continue at the innermost level; every block
declares its own variable; a probe reads one of them after the outermost
construct or at the start of the next loop iteration.  Binding: the real
interpreter must fail at the probe line exactly like the reference
("No such variable"), and print what the reference prints before it."""
import itertools
import os
import shutil

from common import Check, ToolError, batch, run_program, scratch_dir, tlc, tlc_ok, vacuity, write_ndjson
import gen_prog
import refrun

CONSTRUCTS = ["while", "for", "if", "else", "some", "wild"]
EXITS = ["fall", "break", "continue"]


class B(gen_prog.Gen):
    def __init__(self):
        super().__init__(0)

    def I(self, v):
        return self.node("int", v=v)

    def V(self, n):
        return self.node("var", n=n)

    def wrap(self, kind, level, body):
        """Statements implementing construct `kind` around `body` (a list)."""
        if kind == "while":
            k = f"k{level}"
            return [self.node("let", n=k, e=self.I(0)),
                    self.node("while", c=self.paren(self.node("bin", op="<", l=self.V(k), r=self.I(2))),
                              b=[self.node("upd", n=k, op="+", e=self.I(1))] + body)]
        if kind == "for":
            return [self.node("for", n=f"i{level}", it=self.node("list", xs=[self.I(7), self.I(8)]), b=body)]
        if kind == "if":
            return [self.node("if", c=self.node("bool", v=True), t=body, f=[], inline=False, **{"else": False})]
        if kind == "else":
            return [self.node("if", c=self.node("bool", v=False), t=[self.node("print", v="n")], f=body, inline=False, **{"else": True})]
        if kind == "some":
            return [self.node("match", s=self.node("ctor", n="Some", args=[self.I(level)]),
                              arms=[{"v": "Some", "bind": f"m{level}", "wild": False, "b": body},
                                    {"v": "None", "bind": "", "wild": False, "b": []}])]
        if kind == "wild":
            return [self.node("match", s=self.node("ctor", n="A1", args=[]),
                              arms=[{"v": "B1", "bind": f"m{level}", "wild": False, "b": []},
                                    {"v": "", "bind": "", "wild": True, "b": body}])]
        raise ValueError(kind)


def build(pid, chain, exit_, probe_level, probe_pos, in_fun):
    """probe_pos: 'after' (after the outermost construct) or 'next' (first
    statement of the outermost loop body, guarded to the second iteration)."""
    b = B()
    n = len(chain)
    # innermost body
    body = [b.node("let", n=f"a{n}", e=b.I(10 + n)), b.node("show", e=b.V(f"a{n}"))]
    if exit_ == "break":
        body.append(b.node("break"))
    elif exit_ == "continue":
        body.append(b.node("continue"))
    body.append(b.node("print", v=f"e{n} ")) if exit_ == "fall" else None
    for level in range(n - 1, 0, -1):
        inner = b.wrap(chain[level], level + 1, body)
        body = [b.node("let", n=f"a{level}", e=b.I(10 + level))] + inner + [b.node("print", v=f"t{level} ")]
    probe_name = f"a{probe_level}"
    probe = b.node("show", e=b.V(probe_name))
    if probe_pos == "next":
        # only meaningful when the outermost construct is a loop: read the name
        # at the start of the second iteration, before it is declared again
        first = chain[0]
        guard_var = "k1" if first == "while" else "i1"
        guard_val = 2 if first == "while" else 8
        guard = b.node("if", c=b.paren(b.node("bin", op="==", l=b.V(guard_var), r=b.I(guard_val))), t=[probe], f=[], inline=False, **{"else": False})
        body = [guard] + body
        outer = b.wrap(first, 1, body)
        if first == "while":
            # the guard must come after the counter increment
            w = outer[1]
            w["b"] = [w["b"][0], guard] + [s for s in w["b"][1:] if s is not guard]
        stmts = outer + [b.node("print", v="end")]
    else:
        stmts = b.wrap(chain[0], 1, body) + [b.node("print", v="after "), probe, b.node("print", v="unreachable")]
    if in_fun:
        funs = [{"n": "f1", "ps": [], "pt": [], "rt": "Unit", "b": stmts + [b.node("unit")], "line": 0}]
        main = [b.node("call", f=b.V("f1"), args=[])]
    else:
        funs, main = [], stmts
    prog = {"id": pid, "funs": funs, "main": main, "uses_enum": True}
    src = gen_prog.render(prog)
    return prog, src


def matrix(tier):
    out = []
    maxn = 3 if tier == "quick" else 4
    for n in range(1, maxn + 1):
        for chain in itertools.product(CONSTRUCTS, repeat=n):
            has_loop = any(c in ("while", "for") for c in chain)
            for ex in EXITS:
                if ex != "fall" and not has_loop:
                    continue
                for in_fun in (False, True):
                    for lvl in range(1, n + 1):
                        out.append((chain, ex, lvl, "after", in_fun))
                    if chain[0] in ("while", "for") and n >= 2:
                        for lvl in range(2, n + 1):
                            out.append((chain, ex, lvl, "next", in_fun))
    return out


def run(tier, seed):
    ck = Check("C06", "model_checking", tier, seed)
    cases = matrix(tier)
    progs, srcs, meta = [], {}, {}
    for i, (chain, ex, lvl, pos, in_fun) in enumerate(cases):
        p, src = build(i, chain, ex, lvl, pos, in_fun)
        progs.append(p)
        srcs[i] = src
        meta[i] = f"chain={'>'.join(chain)} exit={ex} probe=a{lvl}@{pos} fun={in_fun}"
    d = scratch_dir("c06")
    try:
        # the machine's states carry the evaluation stack: a few thousand programs per TLC run keep the heap small
        for lo in range(0, len(progs), 1500):
            path = os.path.join(d, f"p{lo}.ndjson")
            write_ndjson(path, progs[lo:lo + 1500])
            mres = tlc("MC_Machine", env={"PROGS": path}, workers=8, timeout=2400, heap="12g")
            tlc_ok(mres, "MC_Machine on the exit matrix (RefinesRef, TopBalanced)")
            ck.add_tlc(mres)
    finally:
        shutil.rmtree(d, ignore_errors=True)
    tres, exp = refrun.ref_expect(progs)
    ck.add_tlc(tres)
    reals = batch("run", [{"id": p["id"], "src": srcs[p["id"]]} for p in progs])
    leaks_expected = 0
    for p, real in zip(progs, reals):
        pid = p["id"]
        e = exp[pid]
        ck.evaluated()
        ck.validated()
        if e["ek"] == "NoSuchVariable":
            leaks_expected += 1
            ck.nontrivial(meta[pid])
        if pid % 997 == 0:
            ck.sample({"case": meta[pid], "program": srcs[pid], "expected": {k: e[k] for k in ("outcome", "out", "ek", "line")}})
        ok = refrun.agrees(e, real)
        if ok and e["ek"] == "NoSuchVariable":
            ok = "No such variable" in (real.get("message") or "")
        if not ok:
            rc, out, err = run_program(srcs[pid])
            confirmed = (out != e["out"]) or (e["outcome"] == "exception") != ("Exception" in err or "Error" in err) or rc in (101, 134)
            if not confirmed and "No such variable" in err:
                raise ToolError(f"batch/CLI disagreement on {meta[pid]}")
            obs = refrun.observe(real)
            ck.fail(f"C06 {meta[pid]}",
                    f"{meta[pid]}: reference {e['outcome']}/{e['ek']} at line {e['line']} out={e['out'][-60:]!r}; real {obs['outcome']} at line {obs['line']} out={(obs['out'] or '')[-60:]!r} {real.get('message') or real.get('panic') or ''}",
                    {"cmd": "garden run p.gdn", "src": srcs[pid], "expected": e, "real": real})
    vacuity(leaks_expected > len(cases) // 2, "too few probes reach a name that must be out of scope")
    ck.assumptions += ["the probe is a plain variable read; visibility through closures is part of C05's family"]
    return ck.finish(rule="exit matrix: chains of 1..3 (thorough: 1..4) of {while, for, if, else, match arm, wildcard arm} x exit {fall-through, break, continue} x {top level, function} x probe of each level's variable after the construct or at the next iteration; "
                          "non-trivial = cases whose probe must fail with NoSuchVariable", exhaustive=True)


def replay(rec):
    r = rec["replay"]
    rc, out, err = run_program(r["src"])
    bad = out != r["expected"]["out"] or ("No such variable" not in err and r["expected"]["ek"] == "NoSuchVariable")
    print("still violates" if bad else "no longer violates", rc, out[-100:], err[-200:])
    return 1 if bad else 0
