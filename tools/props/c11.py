"""C11 Incremental session input equals running it as one program.

Spec: Ref.tla's statement sequencing is compositional -- evaluating
`s1 ++ s2` from a state equals evaluating s2 from the state s1 leaves -- which
TLC checks at every split point of generated error-free programs (MC_Split),
and Ref gives the value of the last input.  Binding: each program is sent to a
real JSON session twice: one request per definition / top-level statement, and
all of it as one request; the value answered for the last input must be the
same in both and equal to the value Ref.tla computes."""
import os
import random
import shutil

from common import Check, ToolError, pmap, scratch_dir, tlc, tlc_ok, vacuity, write_ndjson
import gen_prog
import refrun
from session import run_req, run_session, split_by_request, normalize_answer


def pieces(prog):
    """Source text of each definition and each top-level statement."""
    out = []
    if prog.get("uses_enum"):
        out.append("enum E1 { A1, B1(Int), C1 }\n")
    if prog.get("uses_struct"):
        out.append("struct P1 { x: Int, y: String }\n")
    for m in prog.get("meths", []):
        out.append(gen_prog.render({"funs": [], "meths": [m], "main": [], "uses_enum": False}))
    for f in prog["funs"]:
        out.append(gen_prog.render({"funs": [f], "main": [], "uses_enum": False}))
    if prog["id"] % 3 == 0:
        # definitions may arrive in any order (a method before the type it is defined on, a function before
        # the functions it calls): nothing runs until the first statement
        random.Random(prog["id"]).shuffle(out)
        if prog["id"] % 2 == 0:
            out.sort(key=lambda t: 0 if t.startswith("method") else 1)      # every method before every type
    for s in prog["main"]:
        out.append(gen_prog.render({"funs": [], "main": [s], "uses_enum": False}))
    return out


def add_method_shapes(p):
    """Methods on the program's own struct and enum, called from the top level; with the shuffled / reversed
    order of definitions they reach the session before the types they are defined on."""
    g = gen_prog.Gen(0)
    g.nid = 700000
    n = g.node
    V = lambda x: n("var", n=x)
    I = lambda v: n("int", v=v)
    p["uses_struct"] = p["uses_enum"] = True
    p["meths"] = p.get("meths", []) + [
        {"n": "zpx", "recv": "P1", "this": "this", "tt": "P1", "ps": [], "pt": [], "rt": "Int", "line": 0,
         "b": [n("paren", e=n("bin", op="*", l=n("dot", e=V("this"), f="x"), r=I(2)))]},
        {"n": "zen", "recv": "E1", "this": "this", "tt": "E1", "ps": ["k"], "pt": ["Int"], "rt": "Int", "line": 0,
         "b": [n("match", s=V("this"), arms=[{"v": "B1", "bind": "zv", "wild": False, "b": [n("paren", e=n("bin", op="+", l=V("zv"), r=V("k")))]},
                                             {"v": "", "bind": "", "wild": True, "b": [V("k")]}])]}]
    p["main"] = [n("show", e=n("mcall", m="zpx", recv=n("slit", n="P1", fs=[{"n": "x", "e": I(21)}, {"n": "y", "e": n("str", v="a")}]), args=[])),
                 n("show", e=n("mcall", m="zen", recv=n("ctor", n="B1", args=[I(4)]), args=[I(1)])),
                 n("show", e=n("mcall", m="zen", recv=n("ctor", n="C1", args=[]), args=[I(7)]))] + p["main"]


def last_answer(reqs):
    rc, resps, err = run_session(reqs, timeout=60)
    groups, _ = split_by_request(resps)
    if rc != 0 or len(groups) != len(reqs):
        return {"rc": rc, "n": len(groups), "ans": None, "out": None, "stderr": err[-300:]}
    out = "".join(p[1] for prints, _ in groups for p in prints if p[0] == "printed")
    return {"rc": rc, "n": len(groups), "ans": list(normalize_answer(groups[-1][1])[:2]), "out": out,
            "errors": [i for i, (_, a) in enumerate(groups) if a[0] == "error"]}


def run(tier, seed):
    ck = Check("C11", "model_checking", tier, seed)
    n = 60 if tier == "quick" else 600
    feats = {"session_safe": True, "unique_top": True}
    progs, srcs = refrun.gen_programs(seed + 31, n // 2, 5, err_rate=0.0, features=feats)
    # the other half also uses structs, dictionaries, user-defined methods (on built-in types, the struct and the enum)
    p2, s2 = refrun.gen_programs(seed + 31, n - n // 2, 5, err_rate=0.0, base=n // 2, features=dict(feats, ext=True, ext2=True))
    for q in p2:
        if q["id"] % 3 == 0:
            add_method_shapes(q)
            s2[q["id"]] = gen_prog.render(q)
    progs += p2
    srcs.update(s2)
    d = scratch_dir("c11")
    try:
        path = os.path.join(d, "p.ndjson")
        write_ndjson(path, progs)
        mc = tlc("MC_Split", env={"PROGS": path}, workers=8, timeout=1500)
        tlc_ok(mc, "MC_Split (sequencing is compositional)")
        ck.add_tlc(mc)
    finally:
        shutil.rmtree(d, ignore_errors=True)
    tres, exp = refrun.ref_expect(progs)
    ck.add_tlc(tres)
    jobs = []
    for p in progs:
        e = exp[p["id"]]
        if e["outcome"] != "ok":
            continue            # the property is about error-free inputs
        ps = pieces(p)
        if p["id"] % 2 == 0 and len(ps) >= 3:
            # a test item among the inputs: running it must leave the session's variables alone
            k = 1 + (p["id"] // 2) % (len(ps) - 1)
            ps.insert(k, "test verif_probe { assert(1 == 1) }\n")
        jobs.append((p["id"], [run_req(x) for x in ps], [run_req("".join(ps))]))
    res = pmap(lambda j: (last_answer(j[1]), last_answer(j[2])), jobs)
    for (pid, inc_reqs, one_req), (inc, one) in zip(jobs, res):
        ck.evaluated()
        ck.validated()
        e = exp[pid]
        key = f"C11 prog seed={seed} id={pid}"
        if len(inc_reqs) >= 4:
            ck.nontrivial(refrun.src_hash(srcs[pid]))
        if len(ck.cov["samples"]) < 3:
            ck.sample({"inputs": [r["input"] for r in inc_reqs][:6], "last_value": inc["ans"], "reference_value": e["value"]})
        want = ["value", e["value"]] if e["value"] != "" else None
        problem = None
        if inc["ans"] is None or one["ans"] is None:
            problem = f"a session failed: incremental {inc}, single {one}"
        elif inc.get("errors") or one.get("errors"):
            problem = f"an error-free program produced an error answer: incremental {inc.get('errors')}, single {one.get('errors')}"
        elif inc["ans"] != one["ans"]:
            problem = f"last value {inc['ans']} when sent piecewise, {one['ans']} when sent as one input"
        elif inc["out"] != one["out"] or inc["out"] != e["out"]:
            problem = f"printed output differs: piecewise {inc['out'][-60:]!r}, single {one['out'][-60:]!r}, reference {e['out'][-60:]!r}"
        elif want and inc["ans"] != want:
            problem = f"last value {inc['ans']} but the reference semantics gives {want}"
        if problem:
            ck.fail(key, f"{key}: {problem}", {"cmd": "garden reftest-json-session s.json", "requests": inc_reqs, "single": one_req, "expected": e})
    vacuity(len(jobs) * 2 > n, f"only {len(jobs)} of {n} generated programs are error-free")
    ck.assumptions += ["each top-level name is defined once (generator feature unique_top); functions, methods, the struct and the enum are sent as their own inputs, for every third program in a shuffled order; every second program has a passing `test` item among its inputs"]
    return ck.finish(rule="error-free generated programs, one request per definition / top-level statement vs one request for everything; non-trivial = programs with at least 4 inputs; compared: last answered value (both ways and with Ref.tla) and printed output")


def replay(rec):
    r = rec["replay"]
    a, b = last_answer(r["requests"]), last_answer(r["single"])
    print(a, b)
    return 0 if a["ans"] == b["ans"] and a["ans"] is not None else 1
