"""C21 Wrap-in-dbg and add-type-annotation preserve behaviour.

Spec: spec/Ref.tla is the behavioural oracle: dbg(e) returns e after writing
to standard error, and a type annotation that states the type the expression
already has does not change evaluation, so the refactored program must print
(to standard output) and return what Ref.tla computes for the original.
Binding: `garden reftest-wrap-in-dbg` at seeded expression spans and
`garden reftest-add-type-annotation` at seeded let / parameter positions of
generated programs; the output must parse, must not gain `check` errors, and
must run like the reference (for dbg: with extra lines on standard error
only)."""
import random

from common import Check, batch, vacuity
import refactor as rf

EXPRS = {"int", "str", "bool", "var", "paren", "bin", "list", "tuple", "ctor", "call", "mcall", "dot", "slit", "dlit"}


def nerrors(r):
    return len([d for d in r.get("diags", []) if d.get("severity") == "Error"]) + len(r.get("parse_errors") or [])


def add_typed_shapes(p):
    """Lets whose inferred type is less common: functions of a tuple, of no argument, of two arguments, nested
    options and lists -- the annotation printed for them must denote the same type."""
    import gen_prog
    g = gen_prog.Gen(0)
    g.nid = 400000
    n = g.node
    V = lambda x: n("var", n=x)
    I = lambda v: n("int", v=v)
    p["funs"] += [
        {"n": "zf1", "ps": ["t"], "pt": ["(String, Int)"], "rt": "String", "line": 0, "b": [n("str", v="one")]},
        {"n": "zf0", "ps": [], "pt": [], "rt": "Int", "line": 0, "b": [I(3)]},
        {"n": "zf2", "ps": ["a", "b"], "pt": ["Int", "String"], "rt": "Int", "line": 0, "b": [V("a")]},
    ]
    p["main"] += [
        n("let", n="zr1", e=V("zf1")), n("show", e=n("call", f=V("zr1"), args=[n("tuple", xs=[n("str", v="a"), I(1)])])),
        n("let", n="zr0", e=V("zf0")), n("show", e=n("call", f=V("zr0"), args=[])),
        n("let", n="zr2", e=V("zf2")), n("show", e=n("call", f=V("zr2"), args=[I(4), n("str", v="b")])),
        n("let", n="zo", e=n("ctor", n="Some", args=[n("list", xs=[I(1)])])), n("show", e=V("zo")),
        n("let", n="zt", e=n("tuple", xs=[I(1), n("list", xs=[n("str", v="s")])])), n("show", e=V("zt")),
        n("let", n="zl", e=n("list", xs=[n("tuple", xs=[I(1), n("str", v="s")])])), n("show", e=V("zl")),
    ]


def run(tier, seed):
    ck = Check("C21", "model_checking", tier, seed)
    rnd = random.Random(seed * 73 + 21)
    import gen_prog
    import refrun
    progs, srcs = refrun.gen_programs(seed + 211, 120 if tier == "quick" else 1200, 5, err_rate=0.0, features={"ext": True, "ext2": "half"})
    for p in progs:
        # destructuring lets in other layouts than the canonical one: a space or a trailing comma before `)`
        letds = rf.nodes(p, lambda n: n["k"] == "letd")
        for n in letds:
            if rnd.random() < 0.6:
                n["pad"] = rnd.choice([" ", ",", ", ", "  "])
        if p["id"] % 4 == 0:
            add_typed_shapes(p)
        if p["id"] % 4 == 0 or letds:
            srcs[p["id"]] = gen_prog.render(p)
    tres, exp = refrun.ref_expect(progs)
    ck.add_tlc(tres)
    origs = [(p, srcs[p["id"]], exp[p["id"]]) for p in progs if exp[p["id"]]["outcome"] == "ok"]
    base_chk = batch("frontend", [{"id": i, "src": s, "format": False} for i, (_, s, _) in enumerate(origs)], timeout_per=3.0)
    jobs, meta = [], []
    for (p, s, e), bc in zip(origs, base_chk):
        ex = [n for n in rf.nodes(p, lambda n: n["k"] in EXPRS and "start" in n and not (n["k"] == "ctor" and not n.get("args")))]
        rnd.shuffle(ex)
        for n in ex[:3 if tier == "quick" else 6]:
            jobs.append((["reftest-wrap-in-dbg", "FILE", str(n["start"]), str(n["end"])], s))
            meta.append((p, s, e, n["start"], n["end"], "dbg", nerrors(bc)))
        lets = [n for n in rf.nodes(p, lambda n: n["k"] == "let" and "start" in n)]
        rnd.shuffle(lets)
        lets.sort(key=lambda n: 0 if n["n"].startswith("z") else 1)
        for n in lets[:7 if tier == "quick" else 10]:
            a = n["start"] + 4
            jobs.append((["reftest-add-type-annotation", "FILE", str(a), str(a + len(n["n"]))], s))
            meta.append((p, s, e, a, a + len(n["n"]), "annotate", nerrors(bc)))
        # the names of destructuring lets (first and last): annotating them may be refused, but must not
        # produce a broken program
        dl = [n for n in rf.nodes(p, lambda n: n["k"] == "letd" and "start" in n)]
        rnd.shuffle(dl)
        for n in dl[:3 if tier == "quick" else 6]:
            first = n["start"] + 5
            last = first + len(", ".join(n["ns"][:-1])) + (2 if len(n["ns"]) > 1 else 0)
            for a, nm in ((first, n["ns"][0]), (last, n["ns"][-1])):
                jobs.append((["reftest-add-type-annotation", "FILE", str(a), str(a + len(nm))], s))
                meta.append((p, s, e, a, a + len(nm), "annotate", nerrors(bc)))
    res = rf.cli(jobs)
    news = [out if rc == 0 else None for rc, out, err in res]
    idx = [i for i, n in enumerate(news) if n is not None]
    runs = dict(zip(idx, rf.run_all([news[i] for i in idx])))
    chks = dict(zip(idx, batch("frontend", [{"id": i, "src": news[i], "format": False} for i in idx], timeout_per=3.0)))
    done = {"dbg": 0, "annotate": 0}
    refused = 0
    for i, ((p, s, e, a, b, what, nerr0), (rc, out, err)) in enumerate(zip(meta, res)):
        ck.evaluated()
        ck.validated()
        text = s.encode()[a:b].decode()
        cmd = "reftest-wrap-in-dbg" if what == "dbg" else "reftest-add-type-annotation"
        key = f"C21 {rf.refrun.src_hash(s)} {what} `{text[:40]}` at {a}"
        rep = {"cmd": f"garden {cmd} p.gdn {a} {b}", "src": s, "start": a, "end": b, "what": what, "expected": e}
        if rc is None or rc in (101, 134) or (rc is not None and rc < 0):
            ck.fail(key, f"{cmd} crashed or hung (exit {rc}) on `{text[:60]}`: {err[-160:]}", rep)
            continue
        if rc != 0:
            refused += 1
            continue
        done[what] += 1
        ck.nontrivial(key)
        rep["refactored"] = news[i]
        c = chks[i]
        if c.get("parse") != "ok" or c.get("parse_errors"):
            ck.fail(key, f"{cmd} on `{text[:60]}` gives a program that does not parse", rep)
            continue
        if what == "annotate" and c.get("check") == "ok" and nerrors(c) > nerr0:
            new = [d["message"] for d in c.get("diags", []) if d.get("severity") == "Error"]
            ck.fail(key, f"the annotation added at `{text[:40]}` introduces check errors: {new[:2]}", rep)
            continue
        problem = rf.same_behaviour(e, runs[i])
        if problem:
            ck.fail(key, f"after {cmd} on `{text[:60]}` the program {problem}", rep)
        elif what == "dbg" and not runs[i].get("stderr") and False:
            pass
        elif len(ck.cov["samples"]) < 4:
            ck.sample({"what": what, "at": text, "refactored_line": [l for l in news[i].split("\n") if "dbg(" in l or ": " in l][:1]})
    vacuity(done["dbg"] > 100 and done["annotate"] > 50, f"refactorings performed: {done}, refused: {refused}")
    ck.assumptions += ["annotations are requested on let-bound names (parameters and return types of generated functions are already annotated)",
                       "programs are generated error-free and run to completion in the reference"]
    return ck.finish(rule="seeded generated programs x seeded expression spans (wrap-in-dbg) and let names (add-type-annotation), 3 / 6 of each per program; non-trivial = refactorings that were performed",
                     extra={"performed": done, "refused": refused})


def replay(rec):
    r = rec["replay"]
    cmd = "reftest-wrap-in-dbg" if r["what"] == "dbg" else "reftest-add-type-annotation"
    (rc, out, err), = rf.cli([([cmd, "FILE", str(r["start"]), str(r["end"])], r["src"])])
    if rc != 0:
        print(rc, err[-300:])
        return 1
    res, = rf.run_all([out])
    p = rf.same_behaviour(r["expected"], res)
    print(p)
    return 1 if p else 0
