"""C26 Test verdicts are independent and the exit status is honest.

Spec: spec/TestRunner.tla -- tests run in file order in a fresh frame and the
stack is reset between tests; a test started on a dirty stack would have an
unspecified verdict, so VerdictIndependent and SummaryHonest hold exactly
because Reset removes every residue.  TLC checks both invariants on every file
of up to MaxTests tests over 8 body kinds x every filter, and prints each
configuration with its verdict vector, counts and exit status.  Binding: the
file is generated and `garden test [-n filter]` is run; the parsed "Failed:"
lines, the summary counts and the process exit status must equal the model's."""
import os
import re
import shutil

from common import SPEC, Check, ToolError, garden, pmap, scratch_dir, tlc, tlc_ok, vacuity

PRE = ("fun deep(n: Int): Int {\n  if n > 0 {\n    for x in [1] {\n      if True {\n        throw(\"deep\")\n      }\n    }\n  }\n  n\n}\n"
       "fun outer(n: Int): Int {\n  let l = [n, deep(n)]\n  n\n}\nfun fine(n: Int): Int {\n  n + 1\n}\nfun must_pos(n: Int) {\n  assert(n > 0)\n}\n")
BODY = {
    "pass": "assert(1 == 1)",
    "assertfail": "assert(2 == 1 + 2)",
    "throwdeep": "let v = outer(outer(3))",
    "typeerr": "let w = [1, 2]\n  print(w.len())",
    "leftover": "let u = (1, [2, deep(4)], 3)",
    "passblocks": "for q in [1, 2] {\n    if q == 2 {\n      let inner = q\n      assert(inner == 2)\n    }\n  }",
    "passcall": "assert(fine(fine(1)) == 3)",
    "asserthelper": "must_pos(0 - 2)\n  assert(fine(1) == 5)",
}
PASSING = {"pass", "passblocks", "passcall"}


def name_of(i, kind):
    return f"t{i}x_{'ok' if kind in PASSING else 'bad'}_{kind}"


def render(kinds):
    src = PRE
    for i, k in enumerate(kinds, 1):
        src += f"test {name_of(i, k)} {{\n  {BODY[k]}\n}}\n"
    return src


def run_config(cfg):
    kinds = cfg["kinds"]
    d = scratch_dir("c26")
    try:
        path = os.path.join(d, "t.gdn")
        with open(path, "w") as f:
            f.write(render(kinds))
        args = ["test", path]
        if cfg.get("split"):
            # the same tests spread over two files given on one command line, named u1, u2, ... in EACH file
            # (tests of different files may share a name; every one of them runs and counts)
            k = cfg["split"]
            for fname, part in (("a_test.gdn", kinds[:k]), ("b_test.gdn", kinds[k:])):
                with open(os.path.join(d, fname), "w") as f:
                    f.write(PRE + "".join(f"test u{i} {{\n  {BODY[x]}\n}}\n" for i, x in enumerate(part, 1)))
            args = ["test", os.path.join(d, "a_test.gdn"), os.path.join(d, "b_test.gdn")]
        flt = cfg["filter"]
        if flt > 0:
            args += ["-n", f"t{flt}x_"]
        elif flt == -1:
            args += ["-n", "_ok_"]
        rc, out, err = garden(args, timeout=60, cwd=d)
    finally:
        shutil.rmtree(d, ignore_errors=True)
    failed = set(re.findall(r"^Failed: (\S+)", out, re.M))
    m = re.search(r"Ran (\d+) tests?: (?:(\d+) passed and (\d+) failed|it passed|they all passed)", out)
    counts = None
    if m:
        total = int(m.group(1))
        counts = (int(m.group(2)), int(m.group(3))) if m.group(2) else (total, 0)
    elif "No tests found" in out or out.strip() == "":
        counts = (0, 0)
    return rc, failed, counts, out, err


def run(tier, seed):
    ck = Check("C26", "model_checking", tier, seed)
    maxt = 3 if tier == "quick" else 4
    name = f"TestRunner_{os.getpid()}.cfg"
    with open(os.path.join(SPEC, name), "w") as f:
        f.write(f"CONSTANTS\n  MaxTests = {maxt}\nINIT Init\nNEXT Next\nINVARIANT VerdictIndependent\nINVARIANT SummaryHonest\nINVARIANT Emit\nCHECK_DEADLOCK FALSE\n")
    try:
        res = tlc("TestRunner", cfg=name, workers=8, timeout=1800)
    finally:
        os.remove(os.path.join(SPEC, name))
    tlc_ok(res, "TestRunner")
    ck.add_tlc(res)
    cfgs = res.tag("CONFIG")
    if tier == "quick":
        # every 1- and 2-test file, and the 3-test files thinned by a seed-rotated hash
        import zlib
        cfgs = [c for c in cfgs if len(c["kinds"]) <= 2 or (zlib.crc32(("|".join(c["kinds"]) + str(c["filter"])).encode()) + seed) % 4 == 0]
    # two-file invocations of the unfiltered configurations with at least two tests
    two = [dict(c, split=1 + (n % (len(c["kinds"]) - 1))) for n, c in enumerate(cfgs) if c["filter"] == 0 and len(c["kinds"]) >= 2]
    if tier == "quick":
        two = two[::3]
    for c, (rc, failed, counts, out, err) in zip(two, pmap(run_config, two)):
        ck.evaluated()
        ck.validated()
        key = f"C26 two files tests={','.join(c['kinds'])} split={c['split']}"
        ck.nontrivial(key)
        problem = None
        if rc not in (0, 1):
            problem = f"exit status {rc}: {err[-200:]}"
        elif rc != c["exit"]:
            problem = f"exit status {rc}, the model says {c['exit']}"
        elif counts != (c["passed"], c["failed"]):
            problem = f"summary says {counts}, the model says {(c['passed'], c['failed'])} (passed, failed)"
        if problem:
            ck.fail(key, f"{key}: {problem}", {"cmd": "garden test a_test.gdn b_test.gdn", "src": render(c["kinds"]), "filter": 0, "split": c["split"], "stdout": out[-400:]})
    results = pmap(run_config, cfgs)
    mixed = 0
    for c, (rc, failed, counts, out, err) in zip(cfgs, results):
        ck.evaluated()
        ck.validated()
        kinds = c["kinds"]
        key = f"C26 tests={','.join(kinds)} filter={c['filter']}"
        want_failed = {name_of(i + 1, k) for i, k in enumerate(kinds) if c["verdicts"][i] == "fail"}
        if c["failed"] and c["passed"]:
            mixed += 1
            ck.nontrivial(key)
        if len(ck.cov["samples"]) < 4 and len(kinds) == 3 and c["failed"] == 2:
            ck.sample({"tests": kinds, "filter": c["filter"], "expected_verdicts": c["verdicts"], "expected_exit": c["exit"], "real_stdout": out[-200:]})
        problem = None
        if rc not in (0, 1):
            problem = f"exit status {rc}: {err[-200:]}"
        elif rc != c["exit"]:
            problem = f"exit status {rc}, the model says {c['exit']}"
        elif failed != want_failed:
            problem = f"failed tests reported {sorted(failed)}, the model says {sorted(want_failed)}"
        elif counts is None:
            problem = f"no summary line: {out[-200:]!r}"
        elif counts != (c["passed"], c["failed"]) and not (c["passed"] + c["failed"] == 0):
            problem = f"summary says {counts[0]} passed and {counts[1]} failed, the model says {c['passed']} and {c['failed']}"
        if problem:
            ck.fail(key, f"{key}: {problem}", {"cmd": "garden test t.gdn" + ("" if c["filter"] == 0 else " -n ..."), "src": render(kinds), "filter": c["filter"], "stdout": out[-400:]})
    vacuity(mixed > 30, f"only {mixed} configurations mix passing and failing tests")
    ck.assumptions += ["a test's name decides selection by substring, as -n does; names are generated so that each filter selects exactly the intended tests"]
    return ck.finish(rule=f"every file of up to {maxt} tests over 8 body kinds (pass, assertion failure, throw three frames deep inside nested blocks, wrong-typed built-in call, failure with half-built values, passing with nested blocks, passing with calls, assertion failing inside a helper with more of the body pending) x every filter (none, each single test, passing-kind names); "
                          "non-trivial = configurations with both passing and failing selected tests", exhaustive=(tier == "thorough"))


def replay(rec):
    r = rec["replay"]
    kinds = [k.split("_", 2)[2] for k in re.findall(r"test (\S+) \{", r["src"])]
    print(run_config({"kinds": kinds, "filter": r["filter"]})[:3])
    return 1
