"""C10 `:abort` returns the session to a clean top level.

Spec: Session.tla Abort (Stack::pop_to_toplevel) and the invariant
AbortIsClean (one frame, no pending expressions, one block, the initial value
only), checked by TLC with Abort enabled in every stopped state of error-heavy
programs.  Binding: real sessions.  Session A runs definitions, completed
top-level lets, then a failing evaluation placed at a chosen depth (1..3
frames) x open blocks (0..3) x pending values (0..2) x pending top-level
statements after it (0..2), possibly resumed before or with other requests served in
between, then `:abort` and a probe battery.  Session B is a fresh session that received only the
definitions and the completed lets, then the same probes.  Every probe answer
must be equal."""
import itertools
import os
import shutil

from common import Check, ToolError, pmap, scratch_dir, tlc, tlc_ok, vacuity, write_ndjson
import refrun
from session import run_req, run_session, split_by_request, normalize_answer

BLOCKS = [
    ("{body}", 0),
    ("if True {{\n  let b1 = 1\n  {body}\n}}", 1),
    ("for it1 in [1, 2] {{\n  let b1 = it1\n  match Some(b1) {{\n    Some(m1) => {{\n      {body}\n    }}\n    None => {{}}\n  }}\n}}", 2),
    ("let w1 = 0\nwhile w1 < 2 {{\n  w1 += 1\n  if True {{\n    for it2 in [7] {{\n      let b3 = it2\n      {body}\n    }}\n  }}\n}}", 3),
]
PENDING = [
    ("throw(\"boom\")", 0),
    ("let pv1 = 1 + nosuchvar", 1),
    ("let pv2 = max(10, [1, 2, 3 + \"x\"].len())", 2),
]


TOPNEST = [
    "{call}",
    "if True {{\n  let tl1 = 5\n  {call}\n}}",
    "for tf1 in [1, 2] {{\n  let tl1 = tf1\n  if True {{\n    let tl2 = 6\n    {call}\n  }}\n}}",
]


def failing_program(depth, blk, pend, trailing, resumed, topnest=0):
    """(definitions, top-level lets, failing call + trailing statements, local names)"""
    body = PENDING[pend][0]
    inner = BLOCKS[blk][0].format(body=body)
    defs = ""
    # innermost function fails; outer functions call it with pending work
    defs += "fun g1(p1: Int) {\n  let l1 = p1\n  " + inner.replace("\n", "\n  ") + "\n  l1\n}\n"
    callee = "g1"
    for d in range(2, depth + 1):
        defs += f"fun g{d}(p{d}: Int) {{\n  let l{d} = p{d}\n  if True {{\n    let n{d} = [1, {callee}(l{d})]\n  }}\n  l{d}\n}}\n"
        callee = f"g{d}"
    lets = "let keep1 = 41\nlet keep2 = [keep1, 2]\n"
    if depth == 0:
        # the failure is in the top-level frame itself
        # (no top-level `let w1` + while here: it would be a completed top-level
        # variable mutated by the aborted evaluation)
        tmpl = BLOCKS[blk][0].replace("let w1 = 0\nwhile w1 < 2 {{\n  w1 += 1\n", "for w1 in [1, 2] {{\n")
        call = tmpl.format(body=PENDING[pend][0])
        defs = ""
    else:
        call = f"let after0 = {callee}(3)"
    fail = TOPNEST[topnest].format(call=call.replace("\n", "\n    ")) + "\n" + "".join(f"let after{i} = {i}\n" for i in range(1, trailing + 1))
    locals_ = ["l1", "p1", "b1", "m1", "it1", "w1", "b3", "it2", "pv1", "pv2", "after0", "after1", "after2", "l2", "n2", "l3", "n3",
               "tl1", "tl2", "tf1"]
    return defs, lets, fail, locals_


PROBE_CMDS = [":resume", ":stack", ":fstmts", ":locals"]
# requests served while the failed evaluation is still stopped, before :abort
BETWEEN = [[], [{"method": "run", "input": "keep1 + 1"}], [{"method": "run", "input": "keep1 + nosuchvar8"}, {"method": "run", "input": ":locals"}]]


def probes(locals_):
    # the pending-state probes come first: a later `run` request overwrites the
    # top frame's pending expressions and would hide a leftover
    return ([run_req(c) for c in (":fstmts", ":stack", ":locals", ":resume")] +
            [run_req(n) for n in ["keep1", "keep2", "1 + 1"] + locals_] +
            [run_req(c) for c in PROBE_CMDS] + [run_req("keep1 + 1")])


def answers_of(reqs, env=None):
    rc, resps, err = run_session(reqs, timeout=60, env=env)
    groups, _ = split_by_request(resps)
    return rc, [(tuple(p for p in prints), normalize_answer(a)) for prints, a in groups], err


def run(tier, seed):
    ck = Check("C10", "model_checking", tier, seed)
    n = 40 if tier == "quick" else 200
    progs, srcs = refrun.gen_programs(seed + 5, n, 3, err_rate=3.0, features={"ext": True, "ext2": "half"})
    d = scratch_dir("c10")
    try:
        path = os.path.join(d, "p.ndjson")
        write_ndjson(path, progs)
        res = tlc("MC_Session", env={"PROGS": path}, workers=8, heap="8g", timeout=1500)
        tlc_ok(res, "MC_Session (AbortIsClean)")
        ck.add_tlc(res)
    finally:
        shutil.rmtree(d, ignore_errors=True)
    cases = []
    for depth, blk, pend, trailing, resumed in itertools.product((0, 1, 2, 3), range(4), range(3), (0, 1, 2), (0, 2)):
        for topnest in (0, 1, 2):
            if tier == "quick" and topnest and (trailing == 1 or pend == 1):
                continue
            cases.append((depth, blk, pend, trailing, resumed, topnest, 0))
            # other requests served between the failure and :abort: a successful evaluation, a failing one
            if resumed == 0 and (tier != "quick" or (trailing != 1 and pend != 1 and (depth == 0 or topnest == 0))):
                cases.append((depth, blk, pend, trailing, resumed, topnest, 1))
                cases.append((depth, blk, pend, trailing, resumed, topnest, 2))

    def one(case):
        depth, blk, pend, trailing, resumed, topnest, between = case
        defs, lets, fail, locals_ = failing_program(depth, blk, pend, trailing, resumed, topnest)
        pr = probes(locals_)
        a_reqs = [run_req(defs + lets + fail)] + [run_req(":resume")] * resumed + BETWEEN[between] + [run_req(":abort")] + pr
        b_reqs = [run_req(defs + lets)] + pr
        ra = answers_of(a_reqs)
        rb = answers_of(b_reqs)
        return case, a_reqs, ra, rb, len(pr)

    results = pmap(one, cases)
    for case, a_reqs, (rca, aa, erra), (rcb, ab, errb), npr in results:
        depth, blk, pend, trailing, resumed, topnest, between = case
        key = f"C10 depth={depth} blocks={BLOCKS[blk][1]} pending_values={PENDING[pend][1]} trailing={trailing} resumed={resumed} topnest={topnest}" + (f" between={between}" if between else "")
        nb = len(BETWEEN[between])
        ck.evaluated()
        if rcb != 0 or len(ab) != 1 + npr:
            raise ToolError(f"reference session B failed for {key}: rc={rcb} {errb[-200:]}")
        ck.validated()
        ck.nontrivial(key)
        if len(ck.cov["samples"]) < 3 and depth == 3 and blk == 3:
            ck.sample({"case": key, "session_A": [r["input"] for r in a_reqs][:4], "probe_answers": [list(x[1][:2]) for x in aa[-npr:]][:8]})
        problem = None
        if rca != 0 or rca is None:
            problem = f"session died: rc={rca} {erra[-300:]}"
        elif len(aa) != 2 + resumed + nb + npr:
            problem = f"{len(aa)} answers for {2 + resumed + nb + npr} requests"
        elif aa[0][1][0] != "error":
            raise ToolError(f"the failing evaluation did not fail for {key}: {aa[0]}")
        elif aa[1 + resumed + nb][1][0] != "command":      # the wording of the acknowledgement is not part of the property
            problem = f":abort answered {aa[1 + resumed + nb][1][:2]}"
        else:
            pa = aa[-npr:]
            pb = ab[-npr:]
            for i, (x, y) in enumerate(zip(pa, pb)):
                if x != y:
                    problem = f"probe #{i} ({a_reqs[-npr + i]['input']!r}) answered {x[1][:3]} after :abort but {y[1][:3]} in a fresh session"
                    break
        if problem:
            ck.fail(key, f"{key}: {problem}", {"cmd": "garden reftest-json-session s.json", "requests": a_reqs, "stderr": erra[-300:]})
    ck.assumptions += [":fvalues is not in the probe battery: values of earlier completed top-level statements legitimately remain on the value stack of a session that never aborted",
                       "the failing call is a named function (it cannot touch top-level variables), so 'the same top-level variables' is well defined"]
    return ck.finish(rule="failure placed at frames 0..3 x top-level nesting 0..2 x open blocks 0..3 x pending values 0..2 x trailing top-level statements 0..2 x resumed 0/2 times before :abort x other requests in between (none / a successful evaluation / a failing one and :locals); every case distinct and non-trivial; "
                          "probes: top-level names, every local of the aborted frames, fresh expressions, :resume :stack :fstmts :locals", exhaustive=True)


def replay(rec):
    rc, a, err = answers_of(rec["replay"]["requests"])
    print(rc, [x[1][:3] for x in a], err[-200:])
    return 1 if rc != 0 else 0
