"""C07 Resuming after a runtime error reproduces the same error.

Spec: Machine.tla states RestoreExact in every error step (`stack' = stack`:
the failed step's values are back and its entry is pending again) and
Session.tla's ResumeRepeatsError is checked by TLC on error-heavy programs with
MaxResumes resumes (and interrupts in between).  Binding: real JSON sessions
`trigger; :resume; :resume; :resume` for (a) every call of the Builtins.tla
matrix that fails, in three call contexts, (b) a catalogue of every failing
construct of eval_expr, (c) generated programs with injected errors, whose
error line must also be the one Ref.tla predicts.  Answers 2..4 must equal
answer 1 (message and position)."""
import os
import shutil

from common import Check, ToolError, batch, pmap, scratch_dir, tlc, tlc_ok, vacuity, write_ndjson
import catalogue
import refrun
from session import run_req, run_session, split_by_request, normalize_answer

CONSTRUCTS = [
    ("int operand", "1 + \"a\""), ("int operand lhs", "\"a\" * 2"), ("div zero", "1 / 0"), ("rem zero", "5 % 0"),
    ("neg exponent", "2 ** (0 - 1)"), ("pow overflow", "9 ** 99"), ("bool operand", "True && 1"), ("bool operand lhs", "1 || True"),
    ("concat operand", "\"a\" ^ 1"), ("float operand", "1.5 +. 1"), ("float div zero", "1.0 /. 0.0"), ("compare operand", "1 < \"a\""),
    ("if condition", "if 1 { println(\"x\") }"), ("while condition", "while 1 { }"), ("for iteree", "for v in 5 { }"),
    ("for destructure", "for (a, b) in [1] { }"), ("for destructure arity", "for (a, b) in [(1, 2, 3)] { }"),
    ("match non-enum", "match 1 { Some(v) => 1 }"), ("match no case", "match None { Some(v) => 1 }"),
    ("assert false", "assert(1 == 2)"), ("assert non-bool", "assert(1)"), ("assert plain false", "assert(False)"), ("assert lt", "assert(2 < 1)"),
    ("dict key", "Dict[1 => 2]"), ("unknown variable", "nosuchvar"), ("unknown method", "1.nosuchmethod()"),
    ("unknown field", "Path{ p: \"a\" }.q"), ("struct unknown field", "Path{ q: 1 }"), ("struct field type", "Path{ p: 1 }"),
    ("struct missing", "PathInfo{ size: 1 }"), ("struct unknown type", "NoSuchType{ a: 1 }"),
    ("let destructure", "let (a, b) = 1"), ("let destructure arity", "let (a, b) = (1, 2, 3)"), ("let hint", "let a: Int = \"s\""),
    ("assign unbound", "nosuch = 1"), ("update unbound", "nosuch += 1"), ("update non-int", "let s = \"a\"\ns += 1"),
    ("update rhs", "let n = 1\nn += \"a\""), ("call non-function", "5()"), ("call non-function args", "5(1, 2)"),
    ("closure arity", "let c = fun(a) { a }\nc(1, 2)"), ("enum ctor arity", "Some(1, 2)"),
    ("throw", "throw(\"boom\")"), ("namespace access", "import \"__fs.gdn\" as fs\nfs::nosuch"),
    ("list index oob", "[1].get(5).or_throw()"), ("option or_throw", "None.or_throw()"), ("todo", "todo()"),
    ("user arity", "fun g(a: Int): Int { a }\ng()"), ("user param type", "fun g(a: Int): Int { a }\ng(\"s\")"),
    ("user return type", "fun g(): Int { \"s\" }\ng()"), ("closure return type", "let c = fun(): Int { \"s\" }\nc()"),
    ("method this", "\"a\".len(1)"), ("nested values pending", "[1, 2 + \"a\", 3]"), ("args pending", "max(1, 2 + \"a\")"),
    ("tuple pending", "(1, nosuchvar)"),
    # the failing step runs right after a callee frame returned
    ("after call rhs", "fun uf(): String { \"s\" }\n1 + uf()"), ("after call arg", "fun uf(): String { \"w\" }\nthrow(uf())"),
    ("after call two args", "fun uf(): String { \"w\" }\nmax(uf(), 1)"), ("after call last arg", "fun uf(): String { \"w\" }\nmax(1, uf())"),
    ("after closure", "let cf = fun() { \"s\" }\n2 * cf()"), ("after user method", "method um(this: Int): String { \"s\" }\n3 - 1.um()"),
    ("after call in list", "fun uf(): String { \"w\" }\n[1, 2 + uf()]"), ("after call cond", "fun uf(): Int { 1 }\nif uf() { 1 }"),
    ("after call iteree", "fun uf(): Int { 1 }\nfor q in uf() { }"), ("after call update", "fun uf(): String { \"w\" }\nlet acc = 1\nacc += uf()"),
]
CONTEXTS = [
    ("toplevel", "{defs}{e}"),
    ("function", "{defs}fun ctx1() {{\n  let loc = 1\n  {e}\n  loc\n}}\nctx1()"),
    ("loop in function", "{defs}fun ctx2() {{\n  for it in [1, 2] {{\n    if True {{\n      let loc = it\n      {e}\n    }}\n  }}\n}}\nctx2()"),
    ("used value", "{defs}let used = {e}"),
]


def split_defs(snippet):
    """Definitions (fun/import/let lines before the last line) stay at top level."""
    lines = snippet.split("\n")
    return "".join(l + "\n" for l in lines[:-1]), lines[-1]


def resume_session(src, n=3):
    reqs = [run_req(src)] + [run_req(":resume")] * n
    rc, resps, err = run_session(reqs, timeout=60)
    groups, _ = split_by_request(resps)
    answers = [normalize_answer(a) for _, a in groups]
    return rc, answers, err


def same(a, b):
    return a is not None and b is not None and a[0] == b[0] == "error" and tuple(a[1:4]) == tuple(b[1:4])


def run(tier, seed):
    ck = Check("C07", "model_checking", tier, seed)
    # ---- design level
    n = 40 if tier == "quick" else 200
    progs, srcs = refrun.gen_programs(seed + 3, n, 3, err_rate=3.0, features={"ext": True, "ext2": "half"})
    d = scratch_dir("c07")
    try:
        path = os.path.join(d, "p.ndjson")
        write_ndjson(path, progs)
        res = tlc("MC_Session", env={"PROGS": path}, workers=8, heap="8g", timeout=1500)
        tlc_ok(res, "MC_Session (ResumeRepeatsError)")
        ck.add_tlc(res)
    finally:
        shutil.rmtree(d, ignore_errors=True)
    # ---- cases
    cases = []   # (key, source)
    for name, snip in CONSTRUCTS:
        defs, e = split_defs(snip)
        for cname, tmpl in CONTEXTS:
            if cname == "used value" and (e.startswith("let ") or e.startswith("for ") or e.startswith("while ") or " = " in e or "+=" in e or e.startswith("assert")):
                continue
            cases.append((f"construct={name} ctx={cname}", tmpl.format(defs=defs, e=e)))
    mres, calls = catalogue.call_matrix()
    ck.add_tlc(mres)
    stride = 4 if tier == "quick" else 1
    k = 0
    for c in calls:
        if c["eff"] in ("stdin",) or c["expect"] != "error" and len(c["args"]) == 0:
            continue
        if c["n"] == "range" and ("IntMax" in c["args"] or "IntMin" in c["args"]):
            continue        # runs (practically) forever: nothing stops, nothing to resume
        k += 1
        if k % stride:
            continue
        pre, expr = catalogue.render_call(c)
        cname, tmpl = CONTEXTS[k // stride % 3]
        cases.append((f"call={catalogue.call_key(c)} ctx={cname}", tmpl.format(defs=pre, e=expr)))
    gp, gsrcs = refrun.gen_programs(seed, 60 if tier == "quick" else 600, 4, err_rate=1.5, features={"session_safe": True, "ext": True, "ext2": "half"})
    tres, exp = refrun.ref_expect(gp)
    ck.add_tlc(tres)
    for p in gp:
        if exp[p["id"]]["outcome"] in ("exception", "assert"):
            cases.append((f"prog seed={seed} id={p['id']}", gsrcs[p["id"]]))
    results = pmap(lambda kv: resume_session(kv[1]), cases)
    nerr = 0
    for (key, src), (rc, answers, err) in zip(cases, results):
        ck.evaluated()
        first = answers[0] if answers else None
        if rc == 0 and first and first[0] != "error":
            continue           # this case does not fail on this implementation: nothing to resume
        ck.validated()
        nerr += 1
        ck.nontrivial(key)
        if len(ck.cov["samples"]) < 5 and "ctx=loop" in key:
            ck.sample({"case": key, "source": src, "answers": [list(a[:4]) if a else None for a in answers]})
        problem = None
        if rc != 0 or rc is None:
            problem = f"session exited with {rc}: {err[-300:]}"
        elif len(answers) != 4:
            problem = f"{len(answers)} answers for 4 requests"
        else:
            for i in (1, 2, 3):
                if not same(answers[0], answers[i]):
                    problem = f"resume #{i} answered {answers[i][:4] if answers[i] else None} instead of {answers[0][:4]}"
                    break
        if not problem and key.startswith("prog"):
            pid = int(key.split("id=")[1])
            e = exp[pid]
            if first[3] is not None and first[3] + 1 != e["line"]:
                problem = f"error at line {first[3] + 1} but Ref.tla predicts {e['ek']} at line {e['line']}"
        if problem:
            ck.fail("C07 " + key, f"{key}: {problem}", {"cmd": "garden reftest-json-session s.json",
                                                      "requests": [run_req(src)] + [run_req(":resume")] * 3,
                                                      "answers": [list(a[:4]) if a else None for a in answers], "stderr": err[-300:]})
    vacuity(nerr > 150, f"only {nerr} cases stopped with an error")
    ck.assumptions += ["`run` and `:resume` render assertion failures differently (\"Assertion failed\" + stack vs the message itself); answers are normalised to the message before comparison"]
    return ck.finish(rule="failing-construct catalogue x 4 contexts, failing calls of the Builtins.tla matrix x 3 contexts, generated programs with injected errors; non-trivial = sessions whose first answer is an error; "
                          "each is resumed 3 times and every answer must carry the same message and position")


def replay(rec):
    src = rec["replay"]["requests"][0]["input"]
    rc, answers, err = resume_session(src)
    bad = rc != 0 or len(answers) != 4 or not all(same(answers[0], a) for a in answers[1:])
    print("still violates" if bad else "no longer violates", answers)
    return 1 if bad else 0
