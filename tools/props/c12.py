"""C12 Printed values read back as equal values.

Spec: spec/Display.tla -- Disp(v) (the printed form, strings as code point
sequences), the string-literal reader (LitEnd / Unesc) and StringRoundTrip,
which TLC checks for every string over a 9-symbol alphabet (quote, backslash,
newline, tab, multi-byte, ...) up to length 3 (MC_Display); TLC then evaluates
Disp on the value pool (EvalDisplay).  Binding: program 1 builds each value
and prints string_repr -- it must be exactly Disp(v); program 2 uses that text
as source: it must parse, print the same text again, and compare equal to the
original (an equality-only failure is C13's)."""
import os
import shutil

from common import Check, ToolError, batch, run_program, scratch_dir, tlc, tlc_ok, vacuity, write_ndjson
import valuepool as vp


def expected_texts(vals):
    d = scratch_dir("c12")
    try:
        path = os.path.join(d, "cases.ndjson")
        write_ndjson(path, [{"id": i, "v": v} for i, v in enumerate(vals)])
        res = tlc("EvalDisplay", env={"CASES": path}, workers=8, timeout=1500)
    finally:
        shutil.rmtree(d, ignore_errors=True)
    tlc_ok(res, "EvalDisplay")
    out = {e["id"]: "".join(chr(c) for c in e["text"]) for e in res.tag("TEXT")}
    if len(out) != len(vals):
        raise ToolError(f"EvalDisplay printed {len(out)} texts for {len(vals)} values")
    return res, out


def run(tier, seed):
    ck = Check("C12", "model_checking", tier, seed)
    mc = tlc("MC_Display", workers=8, timeout=900)
    tlc_ok(mc, "MC_Display (StringRoundTrip)")
    ck.add_tlc(mc)
    vals = vp.pool(tier) + [vp.S(s) for s in vp.strings(2 if tier == "quick" else 3)]
    res, exp = expected_texts(vals)
    ck.add_tlc(res)
    p1 = [{"id": i, "src": vp.PRE + "println(string_repr(" + vp.src(v) + "))"} for i, v in enumerate(vals)]
    r1 = batch("run", p1)
    p2 = [{"id": i, "src": vp.PRE + "let v1 = " + exp[i] + "\nprintln(string_repr(v1))\nprintln(string_repr(v1 == " + vp.src(v) + "))"}
          for i, v in enumerate(vals)]
    r2 = batch("run", p2)
    eq_only = 0
    for i, v in enumerate(vals):
        ck.evaluated()
        ck.validated()
        want = exp[i]
        key = "C12 value " + want[:150]
        if v["k"] != "Int" or len(v["v"]) > 3:
            ck.nontrivial(want)
        if len(ck.cov["samples"]) < 5 and v["k"] in ("Dict", "Struct", "Tuple"):
            ck.sample({"value_source": vp.src(v), "printed_form": want})
        a, b = r1[i], r2[i]
        if a.get("outcome") != "ok" or a.get("stdout") != want + "\n":
            ck.fail(key, f"string_repr({vp.src(v)}) printed {a.get('stdout')!r} ({a.get('outcome')} {a.get('message') or a.get('panic') or ''}), the specification says {want!r}",
                    {"cmd": "garden run p.gdn", "src": p1[i]["src"], "expected": want, "real": a})
            continue
        if b.get("outcome") != "ok":
            ck.fail(key, f"the printed form {want!r} is not valid source: {b.get('outcome')} {str(b.get('parse_errors') or b.get('message') or b.get('panic'))[:200]}",
                    {"cmd": "garden run p.gdn", "src": p2[i]["src"], "expected": want, "real": b})
            continue
        lines = (b.get("stdout") or "")
        if not lines.startswith(want + "\n"):
            ck.fail(key, f"reading {want!r} back and printing it gives {lines!r}", {"cmd": "garden run p.gdn", "src": p2[i]["src"], "expected": want, "real": b})
            continue
        if lines != want + "\nTrue\n":
            eq_only += 1     # reads back, prints identically, but == says False: structural equality is C13
    ck.assumptions += [f"{eq_only} values read back and re-print identically but compare unequal with ==: attributed to C13, not reported here",
                       "finite floats of the pool only; IEEE formatting of arbitrary floats is not specified in TLA+"]
    return ck.finish(rule="value pool (ints at the limits, floats, 12 tricky strings, Bool/Unit/Option, lists, tuples of arity 0-3, dicts, Result, structs, user enums, nesting 2) plus every string over a 9-symbol alphabet up to length 2 (quick) / 3; "
                          "non-trivial = everything except short integers", extra={"equality_only_failures": eq_only})


def replay(rec):
    rc, out, err = run_program(rec["replay"]["src"])
    print(rc, repr(out), err[-200:])
    return 1
