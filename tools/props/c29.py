"""C29 LSP positions and edits map exactly onto the document.

Spec: spec/LspPos.tla -- OffsetToPos / PosToOffset / WholeRange over documents
of code points (lines end at LF only, columns in UTF-16 units, positions past
a line end clamp to it, a position inside a surrogate pair resolves after the
pair).  MC_LspPos checks RoundTrip, WholeCovers, ClampMonotone and OnBoundary
on every document over {a, e-acute, euro, emoji, LF, CR} up to length 3 (quick)
/ 4 (thorough) and prints every conversion (TABLE lines).

Binding:
 1. spec -> implementation: hook `verif-batch lsppos` evaluates the real
    offset_to_lsp_position, line_char_to_offset and whole_document_range on
    the same documents (and seeded longer ones evaluated by TLC from a file);
    every entry must agree and every boundary offset must round-trip.
 2. edits: a real `garden lsp` process is asked for formatting, rename and
    code actions on documents with multi-byte characters, CR and missing
    trailing newlines; the edits are applied by an independent applier
    (tools/lsp_client.py, LSP semantics in UTF-16 columns) and must give the
    text the command line refactoring prints for the same byte offsets."""
import json
import os
import random
import re
import shutil

from common import Check, ToolError, batch, garden, pmap, scratch_dir, tlc, tlc_ok, vacuity, write_ndjson, SPEC
import frontend as fe
import lsp_client
from props import c23

ALPHA = [97, 98, 32, 233, 8364, 128512, 10, 13]


def mc(mode, maxlen, env=None):
    name = f"MC_LspPos_{mode}_{os.getpid()}.cfg"
    with open(os.path.join(SPEC, name), "w") as f:
        f.write(f'CONSTANTS\n  Mode = "{mode}"\n  MaxLen = {maxlen}\nINIT Init\nNEXT Next\nINVARIANT Props\nINVARIANT Emit\nCHECK_DEADLOCK FALSE\n')
    try:
        res = tlc("MC_LspPos", cfg=name, env=env, workers=8, timeout=3000, heap="8g")
    finally:
        os.remove(os.path.join(SPEC, name))
    tlc_ok(res, f"MC_LspPos mode={mode} (RoundTrip, WholeCovers, ClampMonotone, OnBoundary)")
    return res


def conversions(ck, tables):
    recs = []
    for i, t in enumerate(tables):
        src = "".join(chr(c) for c in t["doc"])
        pts = [[int(x) for x in re.findall(r"\d+", k)] for k in t["points"]]
        recs.append({"id": i, "src": src, "offsets": sorted(int(o) for o in t["offsets"]), "points": pts})
    res = batch("lsppos", recs, timeout_per=1.0)
    for t, rec, r in zip(tables, recs, res):
        ck.evaluated()
        ck.validated()
        src = rec["src"]
        key = "C29 conversion doc=" + ",".join(str(c) for c in t["doc"])[:80]
        if r.get("outcome") in ("panic", "died", "timeout"):
            ck.fail(key, f"position conversion crashed on {src!r}: {r.get('panic') or r.get('stderr_tail')}", {"kind": "conversion", "doc": t["doc"], "src": src})
            continue
        blen = len(src.encode())
        if any(ord(ch) > 127 for ch in src) or "\r" in src:
            ck.nontrivial(src)
        bad = None
        for e in r["offsets"]:
            want = t["offsets"][str(e["offset"])]
            if e["offset"] <= blen:
                if (e["line"], e["character"]) != (want["line"], want["character"]):
                    bad = f"offset {e['offset']} -> ({e['line']}, {e['character']}), specification ({want['line']}, {want['character']})"
                elif e["back"] != e["offset"]:
                    bad = f"offset {e['offset']} -> ({e['line']}, {e['character']}) -> {e['back']}: no round trip"
            if bad:
                break
        if not bad:
            for e in r["points"]:
                want = t["points"][f"<<{e['line']}, {e['character']}>>"]
                if e["offset"] != want:
                    bad = f"position ({e['line']}, {e['character']}) -> offset {e['offset']}, specification {want}"
                    break
        if not bad:
            w = t["whole"]
            want = [w["start"]["line"], w["start"]["character"], w["end"]["line"], w["end"]["character"]]
            if r["whole"] != want:
                bad = f"whole-document range {r['whole']}, specification {want}"
        if bad:
            ck.fail(key, f"{src!r}: {bad}", {"kind": "conversion", "doc": t["doc"], "src": src, "table": t})
        elif len(ck.cov["samples"]) < 3 and len(t["doc"]) == 3 and 128512 in t["doc"] and 10 in t["doc"]:
            ck.sample({"doc": t["doc"], "offsets": t["offsets"], "whole": t["whole"]})


# ---- edits ---------------------------------------------------------------------------------------

def to_lsp(text, off):
    """Independent offset -> LSP position (the definition of LspPos.tla)."""
    b = text.encode()[:off].decode("utf-8")
    line = b.count("\n")
    last = b.rsplit("\n", 1)[-1]
    return {"line": line, "character": sum(2 if ord(c) > 0xFFFF else 1 for c in last)}


ACTIONS = {"Extract function": ["reftest-extract-function", "--name", "extracted"],
           "Extract variable": ["reftest-extract-variable", "--name", "extracted"],
           "Destructure enum": ["reftest-destructure"],
           "Wrap in dbg()": ["reftest-wrap-in-dbg"],
           "Add type annotation": ["reftest-add-type-annotation"]}


def edit_session(job):
    """One document through one LSP process.  -> list of (key, description, replay) failures, count, kinds seen."""
    name, text, toks, rnd_seed, budget = job
    rnd = random.Random(rnd_seed)
    fails = []
    seen = set()
    n = 0
    d = scratch_dir("c29")
    c = lsp_client.Lsp()
    try:
        path = os.path.join(d, "doc.gdn")
        with open(path, "w", encoding="utf-8", newline="") as f:
            f.write(text)
        uri = "file://" + path
        c.request(1, "initialize", {"capabilities": {}, "rootUri": None})
        c.notify("initialized", {})
        c.notify("textDocument/didOpen", {"textDocument": {"uri": uri, "languageId": "garden", "version": 1, "text": text}})
        c.read(3.0, until=lambda m: m.get("method") == "textDocument/publishDiagnostics")
        rid = 10

        def fail(kind, what, extra):
            fails.append((f"C29 edit {kind} {name}", f"{kind} on {name}: {what}", dict({"kind": kind, "src": text, "name": name}, **extra)))

        # formatting == `garden format`
        plain = text.endswith("\n") and "\r\n" not in text and "// args: " not in text
        if plain:
            rid += 1
            r = c.request(rid, "textDocument/formatting", {"textDocument": {"uri": uri}, "options": {"tabSize": 2, "insertSpaces": True}}, timeout=10)
            rc, out, err = garden(["format", path], timeout=20)
            if r is None or "result" not in r:
                fail("formatting", f"no result: {r}", {})
            elif rc == 0:
                n += 1
                seen.add("formatting")
                got = lsp_client.apply_edits(text, r["result"] or [])
                if got != out:
                    fail("formatting", f"edits give {got[-60:]!r}, `garden format` prints {out[-60:]!r}", {"edits": r["result"], "cli": out})
        # rename == reftest-rename
        syms = [t for t in toks if re.fullmatch(r"[a-z_][a-zA-Z0-9_]*", t["text"])]
        rnd.shuffle(syms)
        for t in syms[:budget]:
            off = t["start"]
            rid += 1
            r = c.request(rid, "textDocument/rename", {"textDocument": {"uri": uri}, "position": to_lsp(text, off), "newName": "zz9"}, timeout=10)
            rc, out, err = garden(["reftest-rename", "--new-name", "zz9", path, str(off)], timeout=20)
            if r is None:
                fail("rename", f"no response at offset {off}", {"offset": off})
                break
            res = r.get("result")
            if rc != 0 or out == text:
                if res and res.get("changes"):
                    fail("rename", f"offset {off}: the command line refuses or changes nothing, the server returns edits", {"offset": off, "edits": res})
                continue
            n += 1
            seen.add("rename")
            edits = (res or {}).get("changes", {}).get(uri)
            if not edits:
                fail("rename", f"offset {off} ({t['text']}): the command line renames, the server returns no edits", {"offset": off, "cli": out})
                continue
            got = lsp_client.apply_edits(text, edits)
            if got != out:
                fail("rename", f"offset {off} ({t['text']}): edits give a different text than `reftest-rename`", {"offset": off, "edits": edits, "cli": out, "applied": got})
        # code actions == reftest-<refactoring>
        spans = []
        for i, t in enumerate(toks):
            spans.append((t["start"], t["end"]))
            for j in range(i + 1, min(i + 6, len(toks))):
                if toks[j]["line"] == t["line"]:
                    spans.append((t["start"], toks[j]["end"]))
        rnd.shuffle(spans)
        for s, e in spans[:budget * 2]:
            rid += 1
            r = c.request(rid, "textDocument/codeAction", {"textDocument": {"uri": uri}, "range": {"start": to_lsp(text, s), "end": to_lsp(text, e)},
                                                           "context": {"diagnostics": []}}, timeout=10)
            if r is None:
                fail("codeAction", f"no response for range {s}..{e}", {"start": s, "end": e})
                break
            offered = {a.get("title"): a for a in (r.get("result") or [])}
            for title, cmd in ACTIONS.items():
                rc, out, err = garden(cmd + [path, str(s), str(e)], timeout=20)
                a = offered.get(title)
                if rc != 0:
                    if a is not None:
                        fail("codeAction", f"{title} {s}..{e}: offered by the server, refused by the command line ({err.strip()[:80]})", {"start": s, "end": e, "title": title})
                    continue
                if a is None:
                    if title in ("Extract function", "Extract variable") and s >= e:
                        continue
                    fail("codeAction", f"{title} {s}..{e}: done by the command line, not offered by the server", {"start": s, "end": e, "title": title, "cli": out})
                    continue
                n += 1
                seen.add(title)
                edits = a.get("edit", {}).get("changes", {}).get(uri, [])
                got = lsp_client.apply_edits(text, edits)
                if got != out:
                    fail("codeAction", f"{title} {s}..{e}: edits give a different text than the command line", {"start": s, "end": e, "title": title, "edits": edits, "cli": out, "applied": got})
            # quick fixes: each must be a well-formed edit inside the document
            for title, a in offered.items():
                if a.get("kind") == "quickfix":
                    for ed in a.get("edit", {}).get("changes", {}).get(uri, []):
                        st, en = ed["range"]["start"], ed["range"]["end"]
                        if (st["line"], st["character"]) > (en["line"], en["character"]):
                            fail("quickfix", f"{title}: range start {st} after end {en}", {"start": s, "end": e, "title": title, "edit": ed})
                        n += 1
                        seen.add("quickfix")
        # every quick fix of the document: ranges must be well formed, and applying them all must give what
        # `garden check --fix` gives
        rid += 1
        r = c.request(rid, "textDocument/codeAction", {"textDocument": {"uri": uri}, "range": {"start": {"line": 0, "character": 0}, "end": to_lsp(text, len(text.encode()))},
                                                       "context": {"diagnostics": []}}, timeout=10)
        qf = []
        for a in ((r or {}).get("result") or []):
            if a.get("kind") == "quickfix":
                for ed in a.get("edit", {}).get("changes", {}).get(uri, []):
                    st, en = ed["range"]["start"], ed["range"]["end"]
                    if (st["line"], st["character"]) > (en["line"], en["character"]):
                        fail("quickfix", f"{a.get('title')}: range start {st} after end {en}", {"title": a.get("title"), "edit": ed})
                    else:
                        qf.append(ed)
                    n += 1
                    seen.add("quickfix")
        if qf and name.startswith("lint-bait"):
            # overlapping fixes are applied one per round by check --fix; compare only when they are disjoint
            try:
                got = lsp_client.apply_edits(text, qf)
                rc, out, err = garden(["check", "--fix", "--stdout", path], timeout=20)
                if out.strip() and out != text and got != out:      # (check --fix leaves a text with parse errors alone)
                    fail("quickfix", f"applying the server's quick fixes gives {got[-80:]!r}, `check --fix` gives {out[-80:]!r}", {"edits": qf, "cli": out})
            except ValueError:
                pass
        if not c.alive():
            fail("server", "the language server died during the session", {})
    except ValueError as ex:
        fails.append((f"C29 edit overlapping {name}", f"{name}: {ex}", {"kind": "overlap", "src": text, "name": name}))
    finally:
        c.stop()
        shutil.rmtree(d, ignore_errors=True)
    return fails, n, seen


def widen(rnd, src, toks):
    """Documents for the edit checks: wide characters in literals and comments, optionally CR LF or no final newline."""
    s = c23.perturb(rnd, src, toks).replace("\r\n", "\n")
    r = rnd.random()
    if r < 0.15:
        s = s.replace("\n", "\r\n")
    elif r < 0.3:
        s = s.rstrip("\n")
    return s


def run(tier, seed):
    ck = Check("C29", "model_checking", tier, seed)
    rnd = random.Random(seed * 17 + 29)
    # 1. conversions
    r1 = mc("all", 3 if tier == "quick" else 4)
    ck.add_tlc(r1)
    tables = list(r1.tag("TABLE"))
    docs = []
    for _ in range(150 if tier == "quick" else 2000):
        docs.append({"doc": [rnd.choice(ALPHA) for _ in range(rnd.randint(5, 24))]})
    d = scratch_dir("lsppos")
    try:
        p = os.path.join(d, "docs.ndjson")
        write_ndjson(p, docs)
        r2 = mc("file", 0, env={"DOCS": p})
    finally:
        shutil.rmtree(d, ignore_errors=True)
    ck.add_tlc(r2)
    tables += list(r2.tag("TABLE"))
    vacuity(len(tables) > 300, f"conversion tables printed by TLC ({len(tables)})")
    conversions(ck, tables)

    # 2. edits
    seeds = [(n, s.split("\n// args: ")[0].rstrip("\n") + "\n") for n, s in fe.corpus() if "/" in n]
    rnd.shuffle(seeds)
    seeds = seeds[:30 if tier == "quick" else 300]
    base = batch("frontend", [{"id": i, "src": s, "tokens": True, "check": False, "format": False} for i, (_, s) in enumerate(seeds)], timeout_per=2.0)
    texts = []
    for (name, s), r in zip(seeds, base):
        if not r.get("tokens"):
            continue
        texts.append((name, s))
        texts.append((name + "+wide", widen(rnd, s, r["tokens"])))
        # what the formatter removes without touching anything nearby: repeated blank lines between items, blank
        # lines at the end, trailing blanks on a line (the edits must still produce what `garden format` prints)
        lines = s.split("\n")
        gaps = [i for i, l in enumerate(lines[:-1]) if l == "" and i > 0]
        if gaps and rnd.random() < 0.7:
            for i in sorted(rnd.sample(gaps, min(len(gaps), 2)), reverse=True):
                lines[i:i] = [""] * rnd.randint(1, 2)
            texts.append((name + "+blank", "\n".join(lines) + rnd.choice(["", "\n", "\n\n"])))
    texts += [(f"lint-bait-{i}", s) for i, s in enumerate(c23.LINT_BAIT)]      # quick fixes over several lines
    toks = batch("frontend", [{"id": i, "src": s, "tokens": True, "check": False, "format": False} for i, (_, s) in enumerate(texts)], timeout_per=2.0)
    jobs = [(name, s, r.get("tokens") or [], seed * 1000 + i, 3 if tier == "quick" else 8) for i, ((name, s), r) in enumerate(zip(texts, toks))]
    results = pmap(edit_session, jobs, workers=8)
    total = 0
    kinds = set()
    for (name, s, _, _, _), (fails, n, seen) in zip(jobs, results):
        total += n
        kinds |= seen
        ck.evaluated(n)
        ck.validated(n)
        if "+wide" in name:
            ck.nontrivial(name)
        for key, desc, rep in fails:
            ck.fail(key, desc, rep)
    vacuity(total > 50 and {"formatting", "rename", "Extract variable"} <= kinds, f"edit comparisons made: {total}, kinds {sorted(kinds)}")
    ck.assumptions += ["lines end at LF only; CR is an ordinary character of its line (as in the implementation and the LSP default for \\n-terminated documents)",
                       "tools/lsp_client.py apply_edits is the independent LSP edit applier; the command line refactorings are the reference for the resulting text",
                       "`garden format` strips a test footer and normalises line ends before formatting, so formatting is compared only on documents where that is the identity"]
    return ck.finish(rule="all documents over a six-character alphabet (1-4 byte characters, LF, CR) up to length 3 (quick) / 4 (thorough) plus seeded documents of 5..24 characters: every boundary offset, every (line, character) grid point and the whole-document range; formatting / rename / five refactoring code actions on the repository's .gdn files, plain and widened (multi-byte literals and comments, CR LF, no final newline); non-trivial = documents with multi-byte characters or CR",
                     extra={"edit_comparisons": total, "edit_kinds": sorted(kinds)})


def replay(rec):
    r = rec["replay"]
    print(json.dumps({k: v for k, v in r.items() if k != "src"})[:1500])
    return 1
