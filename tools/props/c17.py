"""C17 Formatting never changes a program's meaning.

Spec: spec/Syntax.tla -- the tree families (ExprTrees / StmtTrees, generated
programs) and their canonical text; C33 establishes that the canonical text
parses to the specification's tree S(t).  The law checked here is
FormatPreserves: for every text x without parse errors, Tree(format(x)) =
Tree(x) and Comments(format(x)) = Comments(x), where Tree is the parser's
position-free dump (hook `ast`, reduced by tools/rustdebug.py) and Comments the
lexer's comment list.  For canonical texts Tree(x) is S(t), so the formatter's
output is tied to the specification's tree; for re-laid-out texts (same
tokens, seeded whitespace / newlines / comments / multi-line and non-ASCII
string literals) the reference is the parser's own tree of the input."""
import json

from common import Check, ToolError, batch, vacuity
import fmtfam
import rustdebug


def tree_and_comments(srcs):
    ast = batch("ast", [{"id": i, "src": s} for i, s in enumerate(srcs)], timeout_per=2.0)
    tok = batch("frontend", [{"id": i, "src": s, "tokens": True, "check": False, "format": False} for i, s in enumerate(srcs)], timeout_per=2.0)
    out = []
    for a, t in zip(ast, tok):
        if a.get("outcome") in ("panic", "died", "timeout") or t.get("lex") != "ok":
            out.append(None)
            continue
        try:
            sx = rustdebug.sexps(a.get("dump", ""))
        except ValueError as e:
            raise ToolError(f"cannot reduce the parser's dump: {e}")
        comments = [c["text"].rstrip() for tk in t.get("tokens", []) for c in tk["comments"]] + [c["text"].rstrip() for c in t.get("trailing_comments", [])]
        out.append({"errors": len(a.get("parse_errors") or []), "tree": sx, "comments": comments})
    return out


def run(tier, seed):
    ck = Check("C17", "model_checking", tier, seed)
    tlcs, texts = fmtfam.family(tier, seed)
    for r in tlcs:
        ck.add_tlc(r)
    srcs = [s for _, s in texts]
    before = tree_and_comments(srcs)
    fm = batch("frontend", [{"id": i, "src": s, "check": False, "formatted": True} for i, s in enumerate(srcs)], timeout_per=3.0)
    outs = [r.get("formatted") if r.get("format") == "ok" else None for r in fm]
    after = tree_and_comments([o if o is not None else "" for o in outs])
    judged = 0
    for (name, s), b, o, a, r in zip(texts, before, outs, after, fm):
        if b is None or b["errors"]:
            continue                # the property is about programs without parse errors
        ck.evaluated()
        ck.validated()
        judged += 1
        key = f"C17 {name} {s[:60]!r}"
        if "+layout" in name:
            ck.nontrivial(s)
        rep = {"src": s, "formatted": o}
        if o is None:
            ck.fail(key, f"the formatter crashed on {s[:80]!r}: {r.get('format_panic') or r.get('outcome')}", rep)
        elif a is None or a["errors"]:
            ck.fail(key, f"the formatted text of {s[:80]!r} no longer parses: {o[:120]!r}", rep)
        elif a["tree"] != b["tree"]:
            d = [(x, y) for x, y in zip(b["tree"] + [None] * 9, a["tree"] + [None] * 9) if x != y][:1]
            ck.fail(key, f"formatting {s[:80]!r} changed the syntax tree: {str(d[0][0])[:120]} became {str(d[0][1])[:120]}", rep)
        elif a["comments"] != b["comments"]:
            ck.fail(key, f"formatting {s[:80]!r} changed the comments: {b['comments'][:3]} became {a['comments'][:3]}", rep)
        elif len(ck.cov["samples"]) < 3 and "+layout" in name and "\n" in s and len(s) < 200:
            ck.sample({"input": s, "formatted": o})
    vacuity(judged > 800, f"parseable inputs judged: {judged}")
    ck.assumptions += ["tools/rustdebug.py (removal of positions / ids from the parser's own dump) is trusted",
                       "re-laid-out inputs keep token adjacency (`Foo{`, `f(`) because adjacency is syntax; optional commas are not varied"]
    return ck.finish(rule="every ExprTrees(1) / StmtTrees(1|2) text and seeded generator programs printed by Syntax.tla, the repository's .gdn files, each also re-laid-out (seeded whitespace, newlines, comments with wide characters, multi-line / non-ASCII string literals); non-trivial = re-laid-out inputs")


def replay(rec):
    r = rec["replay"]
    b, = tree_and_comments([r["src"]])
    f = batch("frontend", [{"id": 0, "src": r["src"], "check": False, "formatted": True}])[0]
    o = f.get("formatted")
    print(json.dumps(o)[:600])
    if o is None:
        return 1
    a, = tree_and_comments([o])
    return 0 if a and b and a["tree"] == b["tree"] and a["comments"] == b["comments"] and not a["errors"] else 1
