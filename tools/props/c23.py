"""C23 Reported source positions are consistent.

Spec: spec/Lexer.tla -- PosTable (byte offset, line, column of every character
boundary: line = newlines before it, column = bytes since the line start) and
PosOK (a reported position's offsets are boundaries inside the text and its
line / column / end line / end column are the table's).

Binding, two directions:
 1. spec -> implementation: every text over the 20 character classes up to
    length 3 (quick) / 4 (thorough) and seeded longer ones: the real lexer's
    tokens, comments and errors must carry exactly the six position fields the
    model computes (this is where a multi-line string literal shows an end
    line that is not the line of its end offset).
 2. implementation -> spec: positions recorded from the real front end
    (parse errors, check diagnostics with their fixes and notes), the
    interpreter (runtime exceptions, hook `run`), the JSON session (error
    positions and stacks) and go-to-definition (`reftest-position`), on
    programs perturbed with multi-line string literals, non-ASCII text, CRLF
    and comments, are judged by TLC with PosOK against the text's table."""
import json
import os
import random
import shutil

from common import Check, ToolError, batch, garden, json_session, pmap, scratch_dir, vacuity, write_ndjson
import frontend as fe
import refrun

PATH = "/tmp/verif_c23.gdn"
# texts that trigger the lints with automatic fixes, laid out over several lines (fix positions are built by
# hand from pieces of other positions)
LINT_BAIT = [
    "fun f(a: Bool, b: Bool): Bool {\n  a ||\n    b ||\n    a\n}\n",
    "fun f(a: Bool, b: Bool): Bool {\n  (a &&\n    b) &&\n      (a &&\n    b)\n}\n",
    "fun f(): Int {\n  [1,\n   2]\n  \"un\nused\"\n  3\n}\n",
    "fun f(): Int {\n  let unused =\n    5\n  let y = 1\n  y\n}\n",
    "fun f(xs: List<Int>): Bool {\n  xs\n    .len() == 0\n}\n",
    "fun f<T,\n  U>(x: Int): Int {\n  x\n}\n",
    "fun f(o: Option<Int>): Int {\n  match o {\n    _ => 1,\n    Some(x) =>\n      x,\n  }\n}\n",
    "fun f(): Int {\n  let x = 1\n  return\n    x\n}\n",
    "import \"__fs.gdn\" as\n  fs\nfun f(): Int { 1 }\n",
    "fun f(\u00e9a: Bool): Bool {\n  \u00e9a || // c \u20ac\n    \u00e9a\n}\n",
]
MULTI = ['"a\nb"', '"é\n€\n\U0001F600"', '"\n"', '"x\\n\ny"', '"é"', '"€ \U0001F600"']


def generic_classes(text):
    out = []
    for ch in text:
        if ch == "\n":
            out.append("nl")
        else:
            out.append({1: "a", 2: "e2", 3: "e3", 4: "e4"}[len(ch.encode("utf-8"))])
    return out


def norm(p):
    if "start_offset" in p:
        return {"start": p["start_offset"], "end": p["end_offset"], "line": p["line_number"], "col": p["column"],
                "end_line": p["end_line_number"], "end_col": p["end_column"], "path": p.get("path")}
    return {k: p.get(k) for k in ("start", "end", "line", "col", "end_line", "end_col", "path")}


def collect(j, out):
    """Every position-shaped object inside a JSON value."""
    if isinstance(j, dict):
        if ("start_offset" in j and "end_offset" in j) or ("start" in j and "end" in j and "end_col" in j):
            out.append(norm(j))
        else:
            for v in j.values():
                collect(v, out)
    elif isinstance(j, list):
        for v in j:
            collect(v, out)


def perturb(rnd, src, toks):
    """Make a program position-hostile: string literals become multi-line or
    non-ASCII, comment lines with wide characters are inserted, a multi-line
    literal is put in front, line ends may become CRLF."""
    parts, tail = fe.split_tokens(src, toks)
    out = []
    for gap, t in parts:
        if t.startswith('"') and len(t) >= 2 and rnd.random() < 0.7:
            t = rnd.choice(MULTI)
        if "\n" in gap and rnd.random() < 0.15:
            gap = gap.replace("\n", "\n// é€\U0001F600 \n", 1)
        out.append(gap + t)
    s = "".join(out) + tail
    r = rnd.random()
    if r < 0.35:
        s = "let _ms = " + rnd.choice(MULTI[:4]) + "\n" + s
    elif r < 0.5:
        s = rnd.choice(MULTI[:4]) + "\n" + s
    if rnd.random() < 0.1:
        s = s.replace("\n", "\r\n")
    return s


def judge(ck, items, what):
    """items: [(text, [positions], origin)].  TLC decides PosOK for each."""
    recs = []
    for i, (text, ps, origin) in enumerate(items):
        recs.append({"id": i, "src": generic_classes(text),
                     "ps": [{k: int(p[k]) for k in ("start", "end", "line", "col", "end_line", "end_col")} for p in ps]})
    recs = [r for r in recs if r["ps"]]
    if not recs:
        return 0
    # the judge is itself checked on every call: a copy of a record with one field of its first position
    # pushed off by one must come back with exactly that position marked
    probe = dict(recs[0], id=-1, ps=[dict(recs[0]["ps"][0], end_col=recs[0]["ps"][0]["end_col"] + 1)] + recs[0]["ps"][1:])
    recs.append(probe)
    d = scratch_dir("pos")
    try:
        p = os.path.join(d, "texts.ndjson")
        write_ndjson(p, recs)
        res = fe.mc_lexer("positions", 0, env={"TEXTS": p})
    finally:
        shutil.rmtree(d, ignore_errors=True)
    ck.add_tlc(res)
    got = {x["id"]: x for x in res.tag("POS")}
    if len(got) != len(recs):
        raise ToolError(f"MC_Lexer positions: {len(got)} verdicts for {len(recs)} texts")
    first_bad = 1 in got[recs[0]["id"]]["bad"]
    if not first_bad and 1 not in got[-1]["bad"]:
        raise ToolError("PosOK accepted a corrupted position: the judge is not binding")
    recs.pop()
    n = 0
    for r in recs:
        text, ps, origin = items[r["id"]]
        v = got[r["id"]]
        n += v["n"]
        if v["n"] and what != "front end":
            ck.sample({"source": what, "origin": origin, "position": {k: ps[0][k] for k in ("start", "end", "line", "col", "end_line", "end_col")}, "label": ps[0].get("label")}, limit=5)
        ck.evaluated(v["n"])
        ck.validated(v["n"])
        for k in v["bad"]:
            p = ps[k - 1]
            kind = "multi-line" if p["line"] != p["end_line"] or "\n" in text.encode()[p["start"]:p["end"]].decode("utf-8", "replace") else "single-line"
            ck.fail(f"C23 {what} {origin} {kind} {p.get('label', '')}",
                    f"{what}: position {dict((k, p[k]) for k in ('start', 'end', 'line', 'col', 'end_line', 'end_col'))} "
                    f"({p.get('label', '')}) is inconsistent with its text ({origin})",
                    {"what": what, "src": text, "position": p, "origin": origin})
    return n


def run(tier, seed):
    ck = Check("C23", "model_checking", tier, seed)
    rnd = random.Random(seed * 131 + 3)

    # 1. lexer positions against the model, all six fields
    tlcs, items = fe.lex_model(tier, seed)
    for r in tlcs:
        ck.add_tlc(r)
    srcs = [fe.text_of(it["src"]) for it in items]
    res = batch("frontend", [{"id": i, "src": s, "tokens": True, "check": False, "format": False, "path": PATH} for i, s in enumerate(srcs)], timeout_per=1.0)
    multiline = 0
    for it, s, r in zip(items, srcs, res):
        ck.evaluated()
        ck.validated()
        if r.get("lex") != "ok":
            continue        # a crash is C01's business
        if any(t["kind"] == "string" and "nl" in it["src"][t["s"] - 1:t["e"] - 1] for t in it["toks"]):
            multiline += 1
            ck.nontrivial(s)
            if len(s) > 6:
                ck.sample({"text": s, "model_tokens": it["toks"], "table": it["table"]}, limit=2)
        diffs = fe.compare_lexer(it, r, fe.FULL)
        if diffs:
            ml = any("nl" in it["src"][t["s"] - 1:t["e"] - 1] for t in it["toks"])
            ck.fail(f"C23 lexer {'multi-line token' if ml else 'token'} {'.'.join(it['src'])[:80]}",
                    f"lexer position differs from Lexer.tla on {s!r}: {diffs[0]}", {"what": "lexer", "src": s, "classes": it["src"], "model": it})
    vacuity(multiline > 10, f"multi-line string literals among the enumerated texts ({multiline})")

    # 2. positions recorded from the real tools, judged by PosOK
    seeds = fe.corpus()
    progs, psrcs = refrun.gen_programs(seed + 78, 60 if tier == "quick" else 500, 5, err_rate=0.6)
    seeds += [(f"gen{p['id']}", psrcs[p["id"]]) for p in progs]
    if tier == "quick":
        rnd.shuffle(seeds)
        seeds = seeds[:250]
    seeds += [(f"lint-bait-{i}", s) for i, s in enumerate(LINT_BAIT)]
    base = batch("frontend", [{"id": i, "src": s, "tokens": True, "check": False, "format": False} for i, (_, s) in enumerate(seeds)], timeout_per=2.0)
    texts = []
    for (name, s), r in zip(seeds, base):
        texts.append((name, s))
        if r.get("tokens"):
            for _ in range(2 if tier == "quick" else 6):
                texts.append((name + "+perturbed", perturb(rnd, s, r["tokens"])))
            for kind, m in fe.mutations(rnd, s, r["tokens"], 1 if tier == "quick" else 4):
                texts.append((name + "+" + kind, m))
    # front end: parse errors, diagnostics, fixes, notes
    res = batch("frontend", [{"id": i, "src": s, "path": PATH, "format": False} for i, (_, s) in enumerate(texts)], timeout_per=2.0)
    items2 = []
    for (name, s), r in zip(texts, res):
        ps = []
        for e in r.get("parse_errors", []):
            ps.append(dict(norm(e["pos"]), label="parse error: " + e["message"][:40]))
        for dg in r.get("diags", []):
            ps.append(dict(norm(dg["pos"]), label="diagnostic: " + dg["message"][:40]))
            for f in dg.get("fixes", []):
                ps.append(dict(norm(f["pos"]), label="fix for: " + dg["message"][:40]))
            for nt in dg.get("notes", []):
                ps.append(dict(norm(nt), label="note of: " + dg["message"][:40]))
        ps = [p for p in ps if p.get("path") in (None, PATH)]
        items2.append((s, ps, name))
    n_front = judge(ck, items2, "front end")
    # `garden check --json` reports the same diagnostics by line / column only: they must be the ones the front
    # end holds (whose offsets PosOK has just judged), line numbers 1-based
    import json as _json
    from common import garden, pmap, scratch_dir
    import shutil as _shutil
    cj = [(name, s_, r) for (name, s_), r in zip(texts, res) if r.get("check") == "ok" and not r.get("parse_errors") and r.get("diags")]
    rnd.shuffle(cj)
    cj.sort(key=lambda t: 0 if any(d["pos"]["line"] != d["pos"]["end_line"] for d in t[2]["diags"]) else 1)     # multi-line diagnostics first
    cj = cj[:40 if tier == "quick" else 400]

    def cli(t):
        d = scratch_dir("c23cj")
        try:
            path = os.path.join(d, "verif_c23.gdn")
            with open(path, "wb") as f:
                f.write(t[1].encode("utf-8"))
            return garden(["check", "--json", path], timeout=30, cwd=d)
        finally:
            _shutil.rmtree(d, ignore_errors=True)
    for (name, s_, r), (rc, out, err) in zip(cj, pmap(cli, cj)):
        ck.evaluated()
        ck.validated()
        got = []
        for line in out.split("\n"):
            if line.strip().startswith("{"):
                try:
                    j = _json.loads(line)
                    got.append((j["line_number"], j["end_line_number"], j["column"], j["end_column"]))
                except (ValueError, KeyError):
                    pass
        want = sorted((d["pos"]["line"] + 1, d["pos"]["end_line"] + 1, d["pos"]["col"], d["pos"]["end_col"]) for d in r["diags"] if d["pos"].get("path") in (None, PATH))
        if rc not in (0, 1) or sorted(got) != want:
            key = f"C23 check --json {name} {refrun.src_hash(s_)}"
            ck.fail(key, f"`garden check --json` reports ranges {sorted(got)[:4]} (exit {rc}); the checker's diagnostics are at {want[:4]} ({name})",
                    {"what": "check --json", "src": s_, "cli": sorted(got), "front_end": want})
    # interpreter: runtime exception positions
    res = batch("run", [{"id": i, "src": s, "path": PATH, "tick_limit": 20000} for i, (_, s) in enumerate(texts)], timeout_per=3.0)
    items3 = []
    for (name, s), r in zip(texts, res):
        ps = []
        if isinstance(r.get("pos"), dict):
            ps.append(dict(norm(r["pos"]), label=f"runtime {r.get('outcome')}: {str(r.get('message'))[:40]}"))
        ps = [p for p in ps if p.get("path") in (None, PATH)]
        items3.append((s, ps, name))
    n_run = judge(ck, items3, "interpreter")
    # JSON session: every position object in the responses to a run request
    sample = [t for t in texts if "+perturbed" in t[0] or "gen" in t[0]]
    rnd.shuffle(sample)
    sample = sample[:60 if tier == "quick" else 600]

    def sess(t):
        rc, resps, _ = json_session([{"method": "run", "input": t[1], "path": PATH}], timeout=20)
        ps = []
        collect(resps, ps)
        return [dict(p, label="session response") for p in ps if p.get("path") in (None, PATH)]
    items4 = [(t[1], ps, t[0]) for t, ps in zip(sample, pmap(sess, sample))]
    n_sess = judge(ck, items4, "json session")
    # go-to-definition at seeded offsets of perturbed programs
    d = scratch_dir("c23def")
    try:
        jobs = []
        for k, (name, s) in enumerate(sample[:40 if tier == "quick" else 300]):
            p = os.path.join(d, f"p{k}.gdn")
            with open(p, "w", encoding="utf-8") as f:
                f.write(s)
            raw = s.encode()
            offs = [o for o in range(len(raw)) if raw[o:o + 1].isalpha()]
            rnd.shuffle(offs)
            for o in offs[:6]:
                jobs.append((p, s, o, name))

        def godef(j):
            p, s, o, name = j
            rc, out, err = garden(["reftest-position", p, str(o)], timeout=20)
            ps = []
            for line in out.split("\n"):
                line = line.strip()
                if line.startswith("{"):
                    try:
                        collect(json.loads(line), ps)
                    except ValueError:
                        pass
            return [dict(q, label=f"definition of offset {o}") for q in ps if q.get("path") == p]
        items5 = [(j[1], ps, j[3]) for j, ps in zip(jobs, pmap(godef, jobs))]
    finally:
        shutil.rmtree(d, ignore_errors=True)
    n_def = judge(ck, items5, "go-to-definition")
    vacuity(n_front > 200 and n_run > 20 and n_sess > 10 and n_def > 10,
            f"positions recorded: front end {n_front}, interpreter {n_run}, session {n_sess}, go-to-definition {n_def}")
    ck.assumptions += ["columns are byte columns (line_numbers::LinePositions), lines are separated by \\n only",
                       "positions that name another file (prelude, built-ins) are not judged against the text",
                       "LSP (UTF-16) positions are C29's subject"]
    return ck.finish(rule="lexer positions on every class text up to length 3/4 and seeded longer texts; PosOK judged by TLC on every position reported by the front end, interpreter, JSON session and go-to-definition for the repository's .gdn files and generated programs, plain, perturbed (multi-line / non-ASCII literals, wide comments, CRLF) and mutated; non-trivial = texts with a multi-line string literal",
                     extra={"positions": {"front_end": n_front, "interpreter": n_run, "session": n_sess, "definition": n_def}})


def replay(rec):
    r = rec["replay"]
    if r.get("what") == "lexer":
        res = batch("frontend", [{"id": 0, "src": r["src"], "tokens": True, "check": False, "format": False}])[0]
        d = fe.compare_lexer(r["model"], res, fe.FULL)
        print(d)
        return 1 if d else 0
    if r.get("what") == "check --json":
        print(json.dumps({"cli": r["cli"], "front_end": r["front_end"]}))
        return 1
    print(json.dumps(r["position"]))
    return 1
