"""C01 Front end never crashes on any source text.

Spec: spec/Lexer.tla -- the lexer over character classes (one class per branch
of lex_between and per UTF-8 width) with its token / comment / error spans;
spec/MC_Lexer.tla enumerates every text over the 20 classes up to length 3
(quick) / 4 (thorough), evaluates seeded longer ones, and enumerates token
sequences over a 38-word vocabulary.

Binding (spec -> implementation): hook `verif-batch frontend` lexes, parses,
checks and formats each text, every stage under catch_unwind; a panic, abort
or hang in any stage is a violation, and the real lexer's token, comment and
error spans must equal the model's (so a lexer that silently mis-advances is
caught even where it does not crash).  Three further families reach the
parser's forward-progress assertions: token sequences (byte level is the class
enumeration), and grammar mutations -- every token-boundary truncation and
seeded deletions / duplications / swaps / replacements / insertions of the
repository's own Garden sources and of programs printed by Syntax.tla."""
import json
import random
import zlib

from common import Check, ToolError, batch, vacuity
import frontend as fe
import refrun


def _key(kind, src):
    return f"C01 {kind} {zlib.crc32(src.encode()):08x}"


def run_family(ck, name, srcs, keyf=None):
    recs = [{"id": i, "src": s, "path": "/tmp/verif_c01.gdn"} for i, s in enumerate(srcs)]
    res = batch("frontend", recs, timeout_per=1.0)
    bad = 0
    for s, r in zip(srcs, res):
        ck.evaluated()
        ck.validated()
        for stage, msg in fe.stage_crashes(r):
            bad += 1
            ck.fail(f"C01 {name} {stage}: {msg[:80]} src={s[:60]!r}",
                    f"front end stage `{stage}` crashed on {s[:200]!r}: {msg[:200]}",
                    {"family": name, "src": s, "stage": stage})
    return res, bad


def run(tier, seed):
    ck = Check("C01", "model_checking", tier, seed)
    rnd = random.Random(seed * 31 + 1)

    # 1. byte level: the class enumeration, lexer compared with the model
    tlcs, items = fe.lex_model(tier, seed)
    for r in tlcs:
        ck.add_tlc(r)
    srcs = [fe.text_of(it["src"]) for it in items]
    recs = [{"id": i, "src": s, "tokens": True, "path": "/tmp/verif_c01.gdn"} for i, s in enumerate(srcs)]
    res = batch("frontend", recs, timeout_per=1.0)
    kinds = set()
    for it, s, r in zip(items, srcs, res):
        ck.evaluated()
        ck.validated()
        crashes = fe.stage_crashes(r)
        for stage, msg in crashes:
            ck.fail(f"C01 classes {stage}: {msg[:80]} src={'.'.join(it['src'])[:80]}",
                    f"front end stage `{stage}` crashed on {s!r}: {msg[:200]}", {"family": "classes", "src": s, "classes": it["src"], "stage": stage})
        if crashes and r.get("lex") != "ok":
            continue
        diffs = fe.compare_lexer(it, r, fe.SPAN)
        if diffs:
            ck.fail(f"C01 lexer-span {'.'.join(it['src'])[:80]}", f"lexer disagrees with Lexer.tla on {s!r}: {diffs[0]}",
                    {"family": "classes", "src": s, "classes": it["src"], "model": it})
        for t in it["toks"]:
            kinds.add(t["kind"])
        for e in it["errs"]:
            kinds.add("err-" + e["kind"])
        if it["coms"]:
            kinds.add("comment")
        if any(c in ("nbsp", "e2", "e3", "e4") for c in it["src"]):
            ck.nontrivial(s)
    vacuity(kinds >= {"op", "float", "int", "string", "unclosed", "symbol", "err-unclosed", "err-unrecognized", "comment"},
            f"the class enumeration reaches every lexer branch (got {sorted(kinds)})")

    # 2. token level
    r3 = fe.mc_lexer("tokseq", 2 if tier == "quick" else 3)
    ck.add_tlc(r3)
    seqs = [" ".join(x["toks"]) for x in r3.tag("TOKSEQ")]
    vocab = sorted({w for x in r3.tag("TOKSEQ") for w in x["toks"]})
    vacuity(len(vocab) >= 30, "token vocabulary printed by TLC")
    extra = 3000 if tier == "quick" else 60000
    for _ in range(extra):
        n = rnd.randint(3, 9)
        seqs.append(" ".join(rnd.choice(vocab) for _ in range(n)))
    run_family(ck, "tokseq", seqs)

    # 3. grammar mutations
    seeds = fe.corpus()
    progs, psrcs = refrun.gen_programs(seed + 77, 40 if tier == "quick" else 300, 5, err_rate=0.2)
    seeds += [(f"gen{p['id']}", psrcs[p["id"]]) for p in progs]
    vacuity(len(seeds) > 200, "seed corpus for grammar mutations")
    recs = [{"id": i, "src": s, "tokens": True, "check": False, "format": False} for i, (_, s) in enumerate(seeds)]
    base = batch("frontend", recs, timeout_per=2.0)
    muts = []
    budget = 6 if tier == "quick" else 60
    for (name, s), r in zip(seeds, base):
        for stage, msg in fe.stage_crashes(r):
            ck.fail(f"C01 corpus {stage}: {msg[:80]} file={name}", f"front end stage `{stage}` crashed on {name}", {"family": "corpus", "src": s, "stage": stage})
        if r.get("tokens"):
            for kind, m in fe.mutations(rnd, s, r["tokens"], budget):
                muts.append(m)
    # non-ASCII and control characters inserted at seeded offsets of the seeds
    for name, s in seeds:
        for _ in range(2 if tier == "quick" else 12):
            k = rnd.randrange(len(s) + 1)
            muts.append(s[:k] + rnd.choice(["\u00e9", "\u20ac", "\U0001F600", "\u00a0", "\u2028", "\ufeff", "\x00", "\\", '"', "'", "`", "\t", "\r"]) + s[k:])
    muts = sorted(set(muts))
    _, _ = run_family(ck, "mutation", muts)
    for m in muts[:2000]:
        ck.nontrivial(m)

    # 4. unterminated / nested constructs of growing size (any length)
    deep = []
    for n in (1, 2, 5, 50, 200) + ((1000,) if tier == "thorough" else ()):
        for o, c in (("(", ")"), ("[", "]"), ("{", "}"), ("f(", ")"), ("if x {", "}"), ("fun() {", "}"), ("-", ""), ("x.f().", "g()"), ("1 + ", "1"), ('"', ""), ("//", "")):
            deep.append((n, o, "open", o * n))
            deep.append((n, o, "closed", o * n + "1" + c * n))
            deep.append((n, o, "let", "let x = " + o * n))
    res = batch("frontend", [{"id": i, "src": d[3]} for i, d in enumerate(deep)], timeout_per=1.0)
    for (n, o, form, s), r in zip(deep, res):
        ck.evaluated()
        ck.validated()
        for stage, msg in fe.stage_crashes(r):
            ck.fail(f"C01 nesting {stage} depth={n} open={o!r} form={form}",
                    f"front end ({stage}) crashed on {n} nested {o!r} ({form}): {msg[-120:].strip()}", {"family": "nesting", "src": s, "stage": stage})

    ck.assumptions += ["one concrete character per class: the lexer's branches depend only on the class (ASCII letter / digit / operator / quote / backslash / whitespace) and the UTF-8 width",
                       "a harness timeout (1 s per text) counts as a crash: the front end must finish",
                       "depth of nesting explored up to 200 (quick) / 1000 (thorough); deeper recursion is bounded by the thread stack like any recursive-descent parser and is not claimed"]
    return ck.finish(rule="every text over 20 character classes up to length 3 (quick) / 4 (thorough) with the lexer compared against Lexer.tla, seeded longer texts, token sequences up to length 2/3 exhaustively and 3..9 seeded, token-boundary truncations and seeded mutations of the repository's .gdn files; non-trivial = texts with multi-byte characters or mutated programs",
                     extra={"lexer_branches": sorted(kinds)})


def replay(rec):
    r = rec["replay"]
    res = batch("frontend", [{"id": 0, "src": r["src"], "tokens": True}], timeout_per=5.0)[0]
    print(json.dumps(res)[:2000])
    return 1 if fe.stage_crashes(res) else 0
