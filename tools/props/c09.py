"""C09 The JSON session answers every request and never dies.

Spec: spec/JsonSession.tla (reader / channel / worker; every request class has
a non-empty set of admissible answer kinds in every state; invariant
OneResponsePerRequest, liveness EventuallyAnswered).  TLC enumerates every
history over the 65-symbol request alphabet (every REPL command of src/commands.rs) up to a bound (and simulates
longer ones) and prints them; each is replayed into a real session, which must
print exactly one answer per request, of an admissible kind, in order, and
still answer `1 + 1` afterwards.  `:quit` is the spec's Quit action: the
process exits with status 0 having answered everything before it and nothing
after it."""
import json
import os
import re

from common import Check, ToolError, garden, pmap, scratch_dir, tlc, tlc_ok, vacuity, json_session
from session import project

DEF = 'fun f() { let s = 1 if True { while True { let t = 2 throw("x") } } }'
REQ = {
    "def": {"method": "run", "input": DEF},
    "let": {"method": "run", "input": "let x = 1"},
    "read": {"method": "run", "input": "x"},
    "callthrow": {"method": "run", "input": "f()"},
    "badprint": {"method": "run", "input": "print(1)"},
    "badif": {"method": "run", "input": 'if 1 { println("x") }'},
    "badwhile": {"method": "run", "input": "while 1 { }"},
    "badmatch": {"method": "run", "input": "match 1 { Some(v) => 1 }"},
    "badfor": {"method": "run", "input": "for v in 5 { }"},
    "deftest": {"method": "run", "input": "test t { assert(1 == 2) }"},
    "parseerr": {"method": "run", "input": "let = ="},
    "resume": {"method": "run", "input": ":resume"},
    "skip": {"method": "run", "input": ":skip"},
    "replaceT": {"method": "run", "input": ":replace True"},
    "replace5": {"method": "run", "input": ":replace 5"},
    "test": {"method": "run", "input": ":test t"},
    "abort": {"method": "run", "input": ":abort"},
    "forget": {"method": "run", "input": ":forget f"},
    "forgetlocal": {"method": "run", "input": ":forget_local x"},
    "type": {"method": "run", "input": ":type x"},
    "locals": {"method": "run", "input": ":locals"},
    "stack": {"method": "run", "input": ":stack"},
    "fstmts": {"method": "run", "input": ":fstmts"},
    "fvalues": {"method": "run", "input": ":fvalues"},
    "nosuchcmd": {"method": "run", "input": ":frobnicate"},
    "evalupto": {"method": "eval_up_to", "path": "/tmp/verif_c09.gdn", "src": "let y = 2\ny + 1\n", "offset": 12},
    "garbage": "this is not json",
    "stopthrow": {"method": "run", "input": DEF + "\nf()"},
    "stopnovar": {"method": "run", "input": "fun h() { nosuchvar1 }\nh()"},
    "stoparg": {"method": "run", "input": "fun k(a: Int, b: Int) { a }\nk(1, nosuchvar3)"},
    "stoptest": {"method": "run", "input": "test t2 { assert(1 == 2) }"},
    "replaceBad": {"method": "run", "input": ":replace nosuchvar2"},
    "replaceCall": {"method": "run", "input": ":replace f()"},
    "doc": {"method": "run", "input": ":doc f"},
    "docnone": {"method": "run", "input": ":doc"},
    "help": {"method": "run", "input": ":help"},
    "funs": {"method": "run", "input": ":funs"},
    "globals": {"method": "run", "input": ":globals"},
    "methods": {"method": "run", "input": ":methods String"},
    "methodsnone": {"method": "run", "input": ":methods"},
    "namespace": {"method": "run", "input": ":namespace"},
    "nsswitch": {"method": "run", "input": ":namespace __user.gdn"},
    "namespaces": {"method": "run", "input": ":namespaces"},
    "parse": {"method": "run", "input": ":parse 1 +"},
    "parsenone": {"method": "run", "input": ":parse"},
    "search": {"method": "run", "input": ":search pr"},
    "source": {"method": "run", "input": ":source f"},
    "types": {"method": "run", "input": ":types"},
    "uptime": {"method": "run", "input": ":uptime"},
    "version": {"method": "run", "input": ":version"},
    "forgetcalls": {"method": "run", "input": ":forget_calls"},
    "loadmissing": {"method": "run", "input": ":load /nonexistent.gdn"},
    "loadfile": {"method": "run", "input": ":load lib.gdn"},
    "trace": {"method": "run", "input": ":trace"},
    "quit": {"method": "run", "input": ":quit"},
    "nbspcmd": {"method": "run", "input": ":doc\u00a0f"},
    "unicmd": {"method": "run", "input": ":\u00e9t\u00e9 x"},
    "widecmd": {"method": "run", "input": ":type\u3000x"},
    "nbspsrc": {"method": "run", "input": "1\u00a0+ 1"},
    "loadreq": {"method": "load", "input": "fun g2() { 1 }", "path": "/tmp/verif_c09.gdn", "offset": 0, "end_offset": 14},
    "loadfar": {"method": "load", "input": "fun g2() { 2 }", "path": "/tmp/verif_c09.gdn", "offset": 0, "end_offset": 500},
    "loadinv": {"method": "load", "input": "fun g2() { 3 }", "path": "/tmp/verif_c09.gdn", "offset": 9, "end_offset": 3},
    "runspan": {"method": "run", "input": "1 + 1", "path": "/tmp/verif_c09.gdn", "offset": 2, "end_offset": 70},
    "runmid": {"method": "run", "input": "\u00e9\u00e9 1 + 1", "path": "/tmp/verif_c09.gdn", "offset": 1, "end_offset": 3},
    "evalfar": {"method": "eval_up_to", "path": "/tmp/verif_c09.gdn", "src": "let y = 2\ny + 1\n", "offset": 5000},
}
LIB = 'fun g() { throw("g") }\nfun f() { 7 }\n'
# the stopped-state focus: composite stops + every evaluation command + abort
FOCUS = ["stopthrow", "stopnovar", "stoparg", "stoptest", "badprint", "badif", "badfor", "resume", "skip", "replaceT",
         "replace5", "replaceBad", "replaceCall", "test", "abort"]
ADMISSIBLE = {"source": {"value", "error"}, "evalcmd": {"value", "error", "command", "malformed"},
              "cmd": {"command", "value", "error"}, "evalupto": {"value", "error"}, "malformed": {"malformed"}}
CLASS = {}
for k in REQ:
    CLASS[k] = ("malformed" if k == "garbage" else "evalupto" if k in ("evalupto", "evalfar") else "quit" if k == "quit" else
                "evalcmd" if k in ("resume", "skip", "replaceT", "replace5", "test", "replaceBad", "replaceCall") else
                "cmd" if REQ[k]["input"].startswith(":") else "source")


ORDER = ["def", "let", "read", "callthrow", "badprint", "badif", "badwhile", "badmatch", "badfor", "deftest", "parseerr", "resume", "skip",
         "replaceT", "replace5", "test", "abort", "forget", "forgetlocal", "type", "locals", "stack", "fstmts", "fvalues", "nosuchcmd",
         "evalupto", "garbage", "stopthrow", "stopnovar", "stoparg", "stoptest", "replaceBad", "replaceCall",
         "doc", "docnone", "help", "funs", "globals", "methods", "methodsnone", "namespace", "nsswitch", "namespaces", "parse", "parsenone",
         "search", "source", "types", "uptime", "version", "forgetcalls", "loadmissing", "loadfile", "trace", "quit",
         "nbspcmd", "unicmd", "widecmd", "nbspsrc", "loadreq", "loadfar", "loadinv", "runspan", "runmid", "evalfar"]
assert list(REQ) == ORDER, "REQ and ORDER (= Alphabet of spec/JsonSession.tla) must list the same symbols in the same order"
# the symbols whose effect on later requests is more than an answer: every length-3 history over CORE is played
CORE = ["def", "let", "read", "callthrow", "badif", "badwhile", "deftest", "parseerr", "resume", "skip", "replaceT", "replaceBad", "test",
        "abort", "forget", "type", "stack", "evalupto", "garbage", "stopthrow", "stoparg", "nsswitch", "loadfile", "trace", "quit",
        "nbspcmd", "loadfar"]


def histories(maxlen, simulate=None, seed=0, focus=False, allowed=None):
    cfgtxt = open(os.path.join(os.path.dirname(__file__), "..", "..", "spec", "JsonSession.cfg")).read()
    if focus or allowed:
        idx = ",".join(str(ORDER.index(s) + 1) for s in (allowed or FOCUS))
        cfgtxt = re.sub(r"Allowed = \{[^}]*\}", "Allowed = {" + idx + "}", cfgtxt)
    d = os.path.join(os.path.dirname(__file__), "..", "..", "spec")
    name = f"JsonSession_{maxlen}_{os.getpid()}.cfg"
    with open(os.path.join(d, name), "w") as f:
        f.write(re.sub(r"MaxLen = \d+", f"MaxLen = {maxlen}", cfgtxt))
    try:
        if simulate:
            res = tlc("JsonSession", cfg=name, workers=4, simulate=simulate, depth=3 * maxlen + 2, seed=seed, timeout=600)
        else:
            res = tlc("JsonSession", cfg=name, workers=8, timeout=1200)
    finally:
        os.remove(os.path.join(d, name))
    tlc_ok(res, f"JsonSession MaxLen={maxlen}")
    hs = []
    seen = set()
    for h in res.tag("HISTORY"):
        t = tuple(h["syms"])
        if t not in seen:
            seen.add(t)
            hs.append(list(t))
    return res, hs


def play(hist):
    reqs = [REQ[s] for s in hist] + [{"method": "run", "input": "1 + 1"}]
    d = scratch_dir("c09")
    import shutil
    try:
        path = os.path.join(d, "s.json")
        with open(os.path.join(d, "lib.gdn"), "w") as f:
            f.write(LIB)
        with open(path, "w") as f:
            for r in reqs:
                f.write((r if isinstance(r, str) else json.dumps(r)) + "\n")
        rc, out, err = garden(["reftest-json-session", path], timeout=30, cwd=d)
    finally:
        shutil.rmtree(d, ignore_errors=True)
    from common import parse_json_stream
    resps = [project(r) for r in parse_json_stream(out)]
    answers = [p for p in resps if p[0] not in ("printed", "printed_err")]
    return rc, answers, err


def classify(ans):
    return {"value": "value", "error": "error", "interrupted": "error", "command": "command", "malformed": "malformed"}.get(ans[0], "other")


def run(tier, seed):
    ck = Check("C09", "model_checking", tier, seed)
    # design level: liveness of the worker on a tiny bound
    live = tlc("JsonSession", cfg="JsonSessionLive.cfg", workers=4, timeout=600)
    tlc_ok(live, "JsonSession liveness")
    ck.add_tlc(live)
    hs = []
    if tier == "quick":
        r2, h2 = histories(2)
        ck.add_tlc(r2)
        r5, h5 = histories(5, simulate=200, seed=seed + 1)
        ck.add_tlc(r5)
        rf, hf = histories(3, focus=True)
        ck.add_tlc(rf)
        import zlib
        # a third of the focus histories per run, rotated by the seed
        hf = [h for h in hf if (zlib.crc32(",".join(h).encode()) + seed) % 3 == 0]
        hs = h2 + h5[:150] + hf
    else:
        r3, h3 = histories(3, allowed=CORE)
        ck.add_tlc(r3)
        r2, h2 = histories(2)
        ck.add_tlc(r2)
        r6, h6 = histories(6, simulate=3000, seed=seed + 1)
        ck.add_tlc(r6)
        rf, hf = histories(4, focus=True)
        ck.add_tlc(rf)
        hs = h3 + h2 + h6 + hf
    results = pmap(play, hs)
    stopped_states = quits = 0
    for hist, (rc, answers, err) in zip(hs, results):
        ck.evaluated()
        ck.validated()
        key = "C09 history=" + ",".join(hist)
        # :quit ends the process (spec action Quit): what was sent before it is answered, nothing after it
        served = hist[:hist.index("quit")] if "quit" in hist else hist
        n = len(served) + (0 if "quit" in hist else 1)
        if "quit" in hist:
            quits += 1
        if any(CLASS[s] == "evalcmd" for s in hist) and any(s.startswith("bad") or s == "callthrow" for s in hist):
            stopped_states += 1
            ck.nontrivial(key)
        if len(ck.cov["samples"]) < 4 and len(hist) >= 3:
            ck.sample({"history": hist, "answers": [a[:2] for a in answers]})
        problem = None
        if rc != 0 or rc is None:
            problem = f"session exited with {rc}: {err[-200:]}"
        elif len(answers) != n:
            problem = f"{len(answers)} answers for {n} requests"
        else:
            for s, a in zip(served, answers):
                if classify(a) not in ADMISSIBLE[CLASS[s]]:
                    problem = f"request {s} answered with {a[:2]}"
                    break
            last = answers[-1] if answers else None
            if not problem and "quit" not in hist and not (last[0] == "value" and str(last[1]).strip().endswith("2")):
                problem = f"final `1 + 1` answered {last[:2]}"
        if problem:
            ck.fail(key, f"history {hist}: {problem}", {"cmd": "garden reftest-json-session s.json",
                                                        "requests": [REQ[s] for s in hist] + [{"method": "run", "input": "1 + 1"}],
                                                        "answers": [list(a[:3]) for a in answers], "stderr": err[-400:]})
    vacuity(stopped_states > 20, "too few histories issue an evaluation command after a failed evaluation")
    vacuity(quits > 20, "too few histories contain :quit")
    ck.assumptions += ["`interrupt` requests are answered by the reader thread out of band and are not in the alphabet (C08 covers them)",
                       "the admissible answer kinds are deliberately loose: the property is one answer per request, in order, and survival"]
    return ck.finish(rule="all histories over the 65-symbol alphabet up to the exhaustive bound plus TLC-simulated longer ones; non-trivial = histories that issue :resume/:skip/:replace/:test after a failed evaluation",
                     exhaustive=False)


def replay(rec):
    reqs = rec["replay"]["requests"]
    from common import json_session as js
    rc, resps, err = js([r for r in reqs if not isinstance(r, str)])
    print(rc, len(resps), err[-300:])
    return 1 if rc != 0 else 0
