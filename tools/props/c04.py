"""C04 Integer and float operators follow the documented arithmetic.

Spec: spec/Int64.tla -- the arithmetic is defined on mathematical integers
(wrap, truncating division, Euclidean remainder, exact power, errors) and
refined to 8-bit limb arithmetic; TLC checks the refinement exhaustively at
W = 8 and on a boundary grid at W = 16 (MC_Int64), then evaluates the 8-limb
(64-bit) operators on a boundary grid and seeded random operands
(EvalInt64).  Binding: the same operations run in the real interpreter; printed
value or error outcome must agree; `x += e` / `x -= e` must leave what
`x = x + e` / `x = x - e` leave.  Floats: only exceptions on a zero divisor,
operand typing, and closure under the float operators are decided here."""
import os
import random
import shutil

from common import Check, ToolError, batch, run_program, is_crash, scratch_dir, tlc, tlc_ok, vacuity, write_ndjson

M = 1 << 64
MIN, MAX = -(1 << 63), (1 << 63) - 1
BOUNDARY = [MIN, MIN + 1, MIN + 2, -(1 << 32) - 1, -(1 << 32), -(1 << 31) - 1, -65537, -256, -3, -2, -1, 0, 1, 2, 3, 7, 10, 62, 63, 64, 65,
            255, 256, 65535, (1 << 31) - 1, 1 << 31, (1 << 32) - 1, 1 << 32, (1 << 32) + 1, 3037000499, 3037000500, 1 << 62, MAX - 2, MAX - 1, MAX]
OPS = ["+", "-", "*", "/", "%", "**", "<", "<=", ">", ">=", "==", "!="]


def limbs(v):
    u = v % M
    return [(u >> (8 * i)) & 255 for i in range(8)]


def unlimbs(ls):
    u = sum(b << (8 * i) for i, b in enumerate(ls))
    return u - M if u >= (1 << 63) else u


def lit(v):
    return str(v)


def run(tier, seed):
    ck = Check("C04", "model_checking", tier, seed)
    rnd = random.Random(seed)
    ref = tlc("MC_Int64", workers=8, timeout=1500)
    tlc_ok(ref, "MC_Int64 (limb arithmetic refines the mathematical definition)")
    ck.add_tlc(ref)
    pairs = []
    grid = BOUNDARY if tier == "thorough" else [v for i, v in enumerate(BOUNDARY) if i % 2 == 0 or v in (MIN, -1, 0, 1, MAX)]
    for a in grid:
        for b in grid:
            pairs.append((a, b))
    for _ in range(300 if tier == "quick" else 4000):
        k = rnd.choice([8, 16, 31, 32, 33, 62, 63, 64])
        a = rnd.randrange(-(1 << (k - 1)), 1 << (k - 1))
        k2 = rnd.choice([3, 6, 8, 16, 32, 63, 64])
        b = rnd.randrange(-(1 << (k2 - 1)), 1 << (k2 - 1))
        pairs.append((a, b))
    cases = []
    for (a, b) in pairs:
        for op in OPS:
            cases.append({"id": len(cases), "op": op, "a": limbs(a), "b": limbs(b), "av": a, "bv": b})
    d = scratch_dir("c04")
    try:
        path = os.path.join(d, "cases.ndjson")
        write_ndjson(path, [{k: c[k] for k in ("id", "op", "a", "b")} for c in cases])
        res = tlc("EvalInt64", env={"CASES": path}, workers=12, timeout=3000)
        tlc_ok(res, "EvalInt64")
        ck.add_tlc(res)
    finally:
        shutil.rmtree(d, ignore_errors=True)
    exp = {e["id"]: e for e in res.tag("EXPECT")}
    if len(exp) != len(cases):
        raise ToolError(f"EvalInt64 gave {len(exp)} results for {len(cases)} cases")
    recs = []
    for c in cases:
        recs.append({"id": c["id"], "src": f"println(string_repr({lit(c['av'])} {c['op']} {lit(c['bv'])}))"})
    upd = []
    for c in cases:
        if c["op"] in ("+", "-"):
            upd.append({"id": c["id"], "src": f"let x = {lit(c['av'])}\nx {c['op']}= {lit(c['bv'])}\nprintln(string_repr(x))"})
    real = batch("run", recs)
    real_upd = {r["id"]: r for r in batch("run", upd)}
    nerr = 0
    for c, r in zip(cases, real):
        e = exp[c["id"]]
        ck.evaluated()
        ck.validated()
        key = f"C04 {c['av']} {c['op']} {c['bv']}"
        if e["ok"]:
            if c["op"] in ("<", "<=", ">", ">=", "==", "!="):
                want = "True" if unlimbs(e["v"]) == 1 else "False"
            else:
                want = str(unlimbs(e["v"]))
            ok = r.get("outcome") == "ok" and r.get("stdout") == want + "\n"
            expected_txt = want
        else:
            nerr += 1
            ok = r.get("outcome") == "exception"
            expected_txt = f"exception ({e['err']})"
        if not e["ok"] or abs(c["av"]) > (1 << 31) or abs(c["bv"]) > (1 << 31):
            ck.nontrivial(key)
        if c["id"] % 4099 == 0:
            ck.sample({"expr": recs[c["id"]]["src"], "expected": expected_txt, "real": r.get("stdout") or r.get("message")})
        if not ok:
            rc, out, err = run_program(recs[c["id"]]["src"])
            ck.fail(key, f"{c['av']} {c['op']} {c['bv']}: specification says {expected_txt}, interpreter: {r.get('outcome')} {r.get('stdout') or r.get('message') or r.get('panic')!r}",
                    {"cmd": "garden run p.gdn", "src": recs[c["id"]]["src"], "expected": expected_txt, "real": r, "cli": {"rc": rc, "stdout": out, "stderr": err[-300:]}})
        if c["op"] in ("+", "-"):
            u = real_upd[c["id"]]
            ck.evaluated()
            want = str(unlimbs(e["v"])) + "\n"
            if not (u.get("outcome") == "ok" and u.get("stdout") == want):
                ck.fail(f"C04 x={c['av']} x {c['op']}= {c['bv']}", f"x = {c['av']}; x {c['op']}= {c['bv']}: x = x {c['op']} e gives {want.strip()}, compound assignment: {u.get('outcome')} {u.get('stdout') or u.get('message') or u.get('panic')!r}",
                        {"cmd": "garden run p.gdn", "src": [x for x in upd if x["id"] == c["id"]][0]["src"], "expected": want, "real": u})
    # ---- floats: exceptions, operand typing, closure
    fl = ["0.0", "1.5", "-2.25", "100.0", "0.1"]
    frecs = []
    for a in fl:
        for b in fl:
            for op in ("+.", "-.", "*.", "/."):
                frecs.append({"id": len(frecs), "src": f"println(string_repr({a} {op} {b}))", "kind": "zero" if (op == "/." and float(b) == 0.0) else "closed"})
    for op in ("+.", "-.", "*.", "/."):
        for a, b in (("1", "1.5"), ("1.5", "\"a\""), ("True", "2.0")):
            frecs.append({"id": len(frecs), "src": f"println(string_repr({a} {op} {b}))", "kind": "type"})
    for op in ("+", "-", "*", "/", "%", "**", "<"):
        frecs.append({"id": len(frecs), "src": f"println(string_repr(1.5 {op} 2))", "kind": "type"})
    fres = batch("run", [{"id": f["id"], "src": f["src"]} for f in frecs])
    import re
    for f, r in zip(frecs, fres):
        ck.evaluated()
        if f["kind"] == "closed":
            ok = r.get("outcome") == "ok" and re.fullmatch(r"-?[0-9]+\.[0-9]+(e-?[0-9]+)?\n|-?inf\n|NaN\n", r.get("stdout") or "") is not None
        elif f["kind"] == "zero":
            ok = r.get("outcome") == "exception"
        else:
            ok = r.get("outcome") == "exception" or (f["src"].startswith("println(string_repr(1 ") and r.get("outcome") == "ok")
        if not ok:
            ck.fail("C04 float " + f["src"], f"{f['src']}: expected {f['kind']}, interpreter: {r.get('outcome')} {r.get('stdout') or r.get('message') or r.get('panic')!r}",
                    {"cmd": "garden run p.gdn", "src": f["src"], "real": r})
    vacuity(nerr > 50, f"only {nerr} cases are specified to raise an exception")
    ck.assumptions += ["IEEE-754 results of +. -. *. /. are not decided (TLA+ has no floating point): only zero-divisor exceptions, operand typing and closure",
                       "an Int operand of a float operator may be promoted (1 +. 1.5): accepted either way"]
    return ck.finish(rule="boundary grid x boundary grid plus seeded random operand pairs, 12 operators and the two compound assignments; non-trivial = cases beyond 32 bits or specified to fail")


def replay(rec):
    r = rec["replay"]
    rc, out, err = run_program(r["src"])
    print(rc, out, err[-200:])
    return 0 if (r.get("expected", "").strip() == out.strip()) else 1
