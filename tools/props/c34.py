"""C34 Only public definitions are visible through imports.

Spec: spec/Imports.tla -- ResU / ResQ (what the property states: an
unqualified name resolves iff the file defines it or plainly imports a file
that marks it public; alias::name resolves iff the alias names a file that
marks it public) and Load (the loader as the code is written: items in file
order, the paths_seen cycle guard, copy-at-import-time for plain imports).
MC_Imports enumerates every project over two files x two names (definitions
none / private / public, imports none / plain / alias including self imports
and cycles, imports before or after the definitions) and, restricted to
imports-first without self imports, over three files x one name; it checks
that loading terminates and prints, per root, what the property states and
what the loader model predicts.

Binding (spec -> implementation): projects are materialised in a scratch
directory; for every root and every (file, name) a probe program calls the
name -- directly, through an alias, or from inside another loaded file's
function -- with `garden run` semantics (hook `run`) and, for root-level
probes, the checker (hook `frontend`).  Reaching must succeed exactly where
ResU / ResQ hold and return a definition from a file that may provide it;
every run must finish (cycles)."""
import json
import os
import random
import shutil

from common import SPEC, Check, ToolError, batch, scratch_dir, tlc, tlc_ok, vacuity


def mc(files, names, restrict, redefine=False):
    name = f"MC_Imports_{os.getpid()}.cfg"
    fs = ", ".join(f'"{f}"' for f in files)
    ns = ", ".join(f'"{n}"' for n in names)
    with open(os.path.join(SPEC, name), "w") as f:
        f.write(f'CONSTANTS\n  Files = {{{fs}}}\n  Names = {{{ns}}}\n  Restrict = {"TRUE" if restrict else "FALSE"}\n  Redefine = {"TRUE" if redefine else "FALSE"}\n'
                'INIT Init\nNEXT Next\nINVARIANT Terminates\nINVARIANT Emit\nCHECK_DEADLOCK FALSE\n')
    try:
        res = tlc("MC_Imports", cfg=name, workers=8, timeout=3000, heap="8g")
    finally:
        os.remove(os.path.join(SPEC, name))
    tlc_ok(res, "MC_Imports (loading terminates)")
    return res


def fname(f):
    return f.lower() + ".gdn"


def file_text(proj, f):
    cfg = proj[f]
    imps, defs = [], []
    for g in sorted(cfg["imps"]):
        if cfg["imps"][g] == "plain":
            imps.append(f'import "./{fname(g)}"\n')
        elif cfg["imps"][g] == "alias":
            imps.append(f'import "./{fname(g)}" as ns{g.lower()}\n')
    for n in sorted(cfg["defs"]):
        kinds = {"none": [], "private": [False], "public": [True], "pubpriv": [True, False], "privpub": [False, True]}[cfg["defs"][n]]
        for pub in kinds:
            defs.append(f'{"public " if pub else ""}fun {n}(): String {{ "{f}.{n}" }}\n')
    via = []
    for n in sorted(cfg["defs"]):
        via.append(f'public fun via_{f.lower()}_{n}(): String {{ {n}() }}\n')
        for g in sorted(cfg["imps"]):
            if cfg["imps"][g] == "alias":
                via.append(f'public fun via_{f.lower()}_ns{g.lower()}_{n}(): String {{ ns{g.lower()}::{n}() }}\n')
    body = imps + defs if cfg["importsFirst"] else defs + imps
    return "".join(body + via)


def probes(proj, r, table):
    """-> [(label, expression, expected reachable, allowed origins, root level?)] for root r."""
    out = []
    names = sorted(proj[r]["defs"])
    files = sorted(proj)
    resU = {f: set(v) for f, v in table["resU"].items()}
    resQ = {f: {tuple(x) for x in v} for f, v in table["resQ"].items()}

    def origins_u(f, n):
        o = set()
        if proj[f]["defs"][n] != "none":
            o.add(f)
        for g in files:
            if proj[f]["imps"][g] == "plain" and proj[g]["defs"][n] in ("public", "privpub"):
                o.add(g)
        return o

    def origins_q(g, n):
        # the property does not say which definition a name denotes when a file both defines it and plainly
        # imports another public one: either may be what g's namespace holds under that name
        return origins_u(g, n) | {g}
    for n in names:
        out.append((f"{r}: {n}()", f"{n}()", n in resU[r], origins_u(r, n), True))
        for g in files:
            if proj[r]["imps"][g] == "alias":
                out.append((f"{r}: ns{g.lower()}::{n}()", f"ns{g.lower()}::{n}()", (g, n) in resQ[r], origins_q(g, n), True))
    # from inside another loaded file f: via_f_n is public in f; call it through r's import of f
    for f in table["loaded"]:
        if f == r or proj[r]["imps"][f] == "none":
            continue
        pre = f"ns{f.lower()}::" if proj[r]["imps"][f] == "alias" else ""
        for n in names:
            out.append((f"{r} -> {f}: {n}()", f"{pre}via_{f.lower()}_{n}()", n in resU[f], origins_u(f, n), False))
            for g in files:
                if proj[f]["imps"][g] == "alias":
                    out.append((f"{r} -> {f}: ns{g.lower()}::{n}()", f"{pre}via_{f.lower()}_ns{g.lower()}_{n}()", (g, n) in resQ[f], origins_q(g, n), False))
    return out


def describe(proj):
    parts = []
    for f in sorted(proj):
        c = proj[f]
        d = ",".join(f"{n}:{c['defs'][n]}" for n in sorted(c["defs"]) if c["defs"][n] != "none")
        i = ",".join(f"{g}:{c['imps'][g]}" for g in sorted(c["imps"]) if c["imps"][g] != "none")
        parts.append(f"{f}[{d}|{i}|{'imports-first' if c['importsFirst'] else 'defs-first'}]")
    return " ".join(parts)


def run(tier, seed):
    ck = Check("C34", "model_checking", tier, seed)
    rnd = random.Random(seed * 41 + 34)
    r1 = mc(["A", "B"], ["p", "q"], False)
    ck.add_tlc(r1)
    r2 = mc(["A", "B", "C"], ["p"], True)
    ck.add_tlc(r2)
    r3 = mc(["A", "B"], ["p"], False, redefine=True)
    ck.add_tlc(r3)
    all2, all3 = list(r1.tag("PROJECT")), list(r2.tag("PROJECT"))
    allr = [p for p in r3.tag("PROJECT") if any(v in ("pubpriv", "privpub") for f in p["proj"].values() for v in f["defs"].values())]
    vacuity(len(all2) == 26244 and len(all3) == 19683 and len(allr) > 4000, f"projects enumerated: {len(all2)} + {len(all3)} + {len(allr)}")
    deviating = [p for p in all2 + all3 + allr if not all(t["rootAgrees"] and t["innerAgrees"] for t in p["roots"].values())]

    def cyclic(p):
        pr = p["proj"]
        edges = {f: [g for g, v in pr[f]["imps"].items() if v != "none"] for f in pr}

        def reach(a, b, seen):
            return any(g == b or (g not in seen and reach(g, b, seen | {g})) for g in edges[a])
        return any(reach(f, f, {f}) for f in pr)

    def interesting(p):
        return sum(1 for f in p["proj"].values() for v in f["imps"].values() if v != "none") >= 2 and \
            any(v in ("public", "pubpriv", "privpub") for f in p["proj"].values() for v in f["defs"].values())
    pool2 = [p for p in all2 if interesting(p)]
    pool3 = [p for p in all3 if interesting(p)]
    rnd.shuffle(pool2)
    rnd.shuffle(pool3)
    rnd.shuffle(deviating)
    cyc3 = [p for p in pool3 if cyclic(p) and any(v == "plain" for f in p["proj"].values() for v in f["imps"].values())]
    n2, n3, nd = (120, 60, 60) if tier == "quick" else (2500, 1200, 1200)
    poolr = [p for p in allr if interesting(p) or any(v != "none" for f in p["proj"].values() for v in f["imps"].values())]
    rnd.shuffle(poolr)
    chosen = pool2[:n2] + pool3[:n3] + (deviating + cyc3)[:nd] + poolr[:40 if tier == "quick" else 800]
    for p in chosen:
        p["cyclic"] = cyclic(p)
    base = scratch_dir("c34")
    try:
        run_recs, chk_recs, meta = [], [], []
        for k, p in enumerate(chosen):
            proj = p["proj"]
            d = os.path.join(base, f"p{k}")
            os.makedirs(d)
            texts = {f: file_text(proj, f) for f in proj}
            for f, t in texts.items():
                with open(os.path.join(d, fname(f)), "w") as fh:
                    fh.write(t)
            for r in sorted(proj):
                for label, ex, want, origins, rootlevel in probes(proj, r, p["roots"][r]):
                    src = texts[r] + "{\n  println(" + ex + ")\n}\n"
                    path = os.path.join(d, fname(r))      # the root IS file r (its text plus the probe block)
                    line = src.count("\n") - 2
                    m = {"proj": proj, "root": r, "label": label, "expr": ex, "want": want, "origins": sorted(origins), "src": src, "line": line,
                         "files": texts, "rootlevel": rootlevel, "cyclic": p["cyclic"]}
                    meta.append(m)
                    run_recs.append({"id": len(run_recs), "src": src, "path": path, "tick_limit": 100000})
                    chk_recs.append({"id": len(chk_recs), "src": src, "path": path, "format": False})
        res_run = batch("run", run_recs, timeout_per=3.0)
        res_chk = batch("frontend", chk_recs, timeout_per=3.0)
    finally:
        shutil.rmtree(base, ignore_errors=True)
    cyc = 0
    for m, rr, rc in zip(meta, res_run, res_chk):
        ck.evaluated()
        ck.validated()
        key = f"C34 {describe(m['proj'])} probe {m['label']}"
        rep = {"files": m["files"], "root": m["root"], "probe": m["src"], "expected_reachable": m["want"], "run": rr,
               "check": [d for d in rc.get("diags", []) if d["pos"]["line"] == m["line"]]}
        if m["cyclic"]:
            cyc += 1
            ck.nontrivial(key)
        if rr.get("outcome") in ("tick", "timeout", "died", "panic", "stack"):
            ck.fail(key, f"{m['label']}: running does not finish normally ({rr.get('outcome')}) in {describe(m['proj'])}", rep)
            continue
        reached = rr.get("outcome") == "ok"
        if reached != m["want"]:
            ck.fail(key, f"{m['label']} is {'reached' if reached else 'not reached: ' + str(rr.get('message'))[:80]} at run time, "
                         f"the property says it {'resolves' if m['want'] else 'must not resolve'}; project {describe(m['proj'])}", rep)
            continue
        if reached:
            got = (rr.get("stdout") or "").strip().split(".")[0]
            if got not in m["origins"]:
                ck.fail(key, f"{m['label']} reached the definition of file {got}, which may not provide it ({m['origins']}); project {describe(m['proj'])}", rep)
        if m["rootlevel"] and rc.get("check") == "ok" and rc.get("parse") == "ok":
            errs = [d for d in rc.get("diags", []) if d["pos"]["line"] == m["line"] and d["severity"] == "Error"]
            if bool(errs) == m["want"]:
                ck.fail(key + " (check)", f"{m['label']}: the checker {'reports ' + errs[0]['message'][:60] if errs else 'reports nothing'}, "
                                         f"the property says it {'resolves' if m['want'] else 'must be an error'}; project {describe(m['proj'])}", rep)
        elif m["rootlevel"] and rc.get("check") != "ok":
            ck.fail(key + " (check)", f"{m['label']}: the checker did not finish: {rc.get('check_panic') or rc.get('outcome')}", rep)
        if len(ck.cov["samples"]) < 4 and m["want"] and not m["rootlevel"]:
            ck.sample({"project": describe(m["proj"]), "probe": m["label"], "reaches": (rr.get("stdout") or "").strip()})
    vacuity(len(meta) > 1500 and cyc > 300, f"probes: {len(meta)}, of which in projects with an import cycle: {cyc}")
    ck.assumptions += ["definitions are functions; types and methods follow other rules and are not enumerated",
                       "check-time expectations are judged on root-level probes only (diagnostics on the probe line)",
                       f"the loader model (Imports.tla Load) disagrees with the property on {len(deviating)} of {len(all2) + len(all3)} enumerated projects; those are sampled preferentially"]
    return ck.finish(rule="TLC: all 26244 two-file / two-name projects and all 19683 restricted three-file projects (termination, property vs loader model); replayed: seeded sample of interesting projects (>= 2 imports, a public definition) plus projects where the loader model deviates, every root x every probe; non-trivial = probes in projects with an import cycle",
                     extra={"projects_enumerated": len(all2) + len(all3), "loader_model_deviates_on": len(deviating), "projects_replayed": len(chosen)})


def replay(rec):
    r = rec["replay"]
    d = scratch_dir("c34r")
    try:
        for f, t in r["files"].items():
            with open(os.path.join(d, fname(f)), "w") as fh:
                fh.write(t)
        path = os.path.join(d, fname(r["root"]))
        res = batch("run", [{"id": 0, "src": r["probe"], "path": path, "tick_limit": 100000}], timeout_per=5.0)[0]
    finally:
        shutil.rmtree(d, ignore_errors=True)
    print(json.dumps(res)[:600])
    return 0 if (res.get("outcome") == "ok") == r["expected_reachable"] else 1
