"""C24 Sandboxed code cannot touch files, processes or stdin.

Spec: spec/Builtins.tla -- every entry has an effect class; Forbidden = {fs,
proc, stdin}; in sandboxed mode a call with a forbidden effect ends the
evaluation with the sandbox error before any effect (SandboxExpect), which the
machine states as one step: `enforce_sandbox /\ effect \in Forbidden => stop
ForbiddenInSandbox` ahead of everything else the built-in does.  TLC enumerates
the call matrix; every forbidden-effect call is placed in six call positions
(top level, inside a function, inside a closure passed to map, inside a
sandboxed test, through a namespace alias, through an unqualified import).
Binding: `playground-run` / `sandboxed-test` in a scratch directory seeded with
canary files, a canary executable first on PATH and a stdin pipe that holds a
line; afterwards the directory must be unchanged, the canary must not have
run, stdin must not have been consumed, and the run must have ended with the
sandbox error (or, for ill-formed calls, an argument error) -- never a value."""
import hashlib
import json
import os
import shutil
import stat
import subprocess

from common import GARDEN, Check, ToolError, pmap, scratch_dir, vacuity
import catalogue

VALUE = dict(catalogue.VALUE)
VALUE["Path"] = 'Path{ p: "canary.txt" }'
VALUE["String"] = '"canary.txt"'
VALUE["ListString"] = '["canary.txt", "b"]'


def render(c, position):
    args = ", ".join(VALUE[k] for k in c["args"])
    ns = c["ns"]
    if c["recv"]:
        call, imp = f"{VALUE[c['recv']]}.{c['n']}({args})", ""
    elif ns:
        call, imp = f"{ns}::{c['n']}({args})", f'import "__{ns}.gdn" as {ns}\n'
    else:
        call, imp = f"{c['n']}({args})", ""
    if position == "unqualified" and ns:
        call, imp = f"{c['n']}({args})", f'import "__{ns}.gdn"\n'
    if position in ("toplevel", "unqualified", "alias"):
        return imp + 'println("before")\nlet r = ' + call + '\nprintln("after")\n', None
    if position == "function":
        return imp + "fun go() {\n  let r = " + call + '\n  println("after")\n}\nprintln("before")\ngo()\n', None
    if position == "closure":
        return imp + 'println("before")\nlet rs = [1, 2].map(fun(x) { ' + call + ' })\nprintln("after")\n', None
    if position == "test":
        src = imp + "fun target(): Int {\n  let r = " + call + "\n  1\n}\ntest tt { assert(target() == 1) }\n"
        return src, src.index("target")
    raise ValueError(position)


def snapshot(d):
    out = {}
    for root, dirs, files in os.walk(d):
        for f in files:
            p = os.path.join(root, f)
            with open(p, "rb") as fh:
                out[os.path.relpath(p, d)] = hashlib.sha1(fh.read()).hexdigest()
        for x in dirs:
            out[os.path.relpath(os.path.join(root, x), d) + "/"] = "dir"
    return out


def one(job):
    key, src, offset = job
    d = scratch_dir("c24")
    try:
        work = os.path.join(d, "work")
        bindir = os.path.join(d, "bin")
        os.makedirs(work)
        os.makedirs(bindir)
        with open(os.path.join(work, "canary.txt"), "w") as f:
            f.write("canary contents\n")
        os.makedirs(os.path.join(work, "canarydir"))
        with open(os.path.join(work, "canarydir", "inner.txt"), "w") as f:
            f.write("inner\n")
        marker = os.path.join(d, "canary_ran")
        for exe in ("canary.txt", "ab", "a"):
            p = os.path.join(bindir, exe)
            with open(p, "w") as f:
                f.write(f"#!/bin/sh\ntouch {marker}\n")
            os.chmod(p, os.stat(p).st_mode | stat.S_IEXEC)
        with open(os.path.join(work, "p.gdn"), "w") as f:
            f.write(src)
        before = snapshot(work)
        env = dict(os.environ)
        env["PATH"] = bindir + ":" + env.get("PATH", "")
        args = [GARDEN, "playground-run", "p.gdn"] if offset is None else [GARDEN, "sandboxed-test", "p.gdn", str(offset)]
        proc = subprocess.Popen(args, cwd=work, env=env, stdin=subprocess.PIPE, stdout=subprocess.PIPE, stderr=subprocess.PIPE)
        timed_out = False
        try:
            # a line is waiting on stdin; the sandboxed program must not consume it
            out, err = proc.communicate(input=b"SECRET-LINE\n", timeout=20)
        except subprocess.TimeoutExpired:
            proc.kill()
            out, err = proc.communicate()
            timed_out = True
        after = snapshot(work)
        return {"rc": proc.returncode, "out": out.decode("utf-8", "replace"), "err": err.decode("utf-8", "replace")[-300:],
                "timed_out": timed_out, "fs_changed": sorted(set(before.items()) ^ set(after.items()))[:4], "canary_ran": os.path.exists(marker)}
    finally:
        shutil.rmtree(d, ignore_errors=True)


def classify(r, is_test):
    """sandbox | error | value | crash"""
    if r["timed_out"]:
        return "hang"
    if r["rc"] not in (0,):
        return "crash"
    if is_test:
        try:
            j = json.loads(r["out"].strip().split("\n")[-1])
            desc = j["tests"]["tt"]["description"]
        except (ValueError, KeyError, IndexError):
            return "crash"
        return "sandbox" if desc == "sandboxed" else "value" if desc == "passed" else "error"
    last = None
    for line in r["out"].strip().split("\n"):
        try:
            j = json.loads(line)
        except ValueError:
            continue
        if "error" in j:
            last = j
    if last is None:
        return "crash"
    if last["error"] is None:
        return "value"
    return "sandbox" if "sandboxed mode" in last["error"] else "error"


def run(tier, seed):
    ck = Check("C24", "model_checking", tier, seed)
    mres, calls = catalogue.call_matrix()
    ck.add_tlc(mres)
    forb = [c for c in calls if c["eff"] in ("fs", "proc", "stdin")]
    vacuity(len(forb) > 100, "too few forbidden-effect calls in the matrix")
    jobs = []
    positions = ["toplevel", "function", "closure", "test", "alias", "unqualified"]
    for n, c in enumerate(forb):
        wellformed = c["expect"] != "error"
        for pi, pos in enumerate(positions):
            if pos in ("alias", "unqualified") and not c["ns"]:
                continue
            if tier == "quick" and not wellformed and (n + pi) % 3:
                continue       # ill-formed calls are thinned in quick; well-formed ones are all kept
            src, off = render(c, pos)
            jobs.append((f"C24 {catalogue.call_key(c)} pos={pos}", src, off, c))
    # Functions of the file-system and shell namespaces that Builtins.tla does not list (the table is a
    # transcription; the implementation may have grown): each is called with arguments built from its
    # declared parameter types.  Nothing is known about what such a function should answer, so only the
    # effects are judged: the directory snapshot, the canary executable, the stdin line.
    import re
    from common import REPO
    known = {(c["ns"], c["n"]) for c in calls}
    unknown = []
    by_type = {"Path": VALUE["Path"], "String": VALUE["String"], "List<String>": VALUE["ListString"], "List<Int>": "[104, 105]", "Int": "1", "Bool": "True"}
    for ns in ("fs", "shell"):
        try:
            text = open(os.path.join(REPO, "src", f"__{ns}.gdn")).read()
        except OSError:
            continue
        for m in re.finditer(r"^public fun (\w+)\(([^)]*)\)", text, re.M):
            if (ns, m.group(1)) in known:
                continue
            args = [by_type.get(a.split(":", 1)[1].strip(), "1") for a in m.group(2).split(",") if ":" in a]
            call = f"{ns}::{m.group(1)}(" + ", ".join(args) + ")"
            imp = f'import "__{ns}.gdn" as {ns}\n'
            unknown.append((f"C24 unlisted {ns}::{m.group(1)} pos=toplevel", imp + 'println("before")\nlet r = ' + call + '\nprintln("after")\n', None, None))
            tsrc = imp + "fun target(): Int {\n  let r = " + call + "\n  1\n}\ntest tt { assert(target() == 1) }\n"
            unknown.append((f"C24 unlisted {ns}::{m.group(1)} pos=test", tsrc, tsrc.index("target"), None))
    for (key, src, off, _), r in zip(unknown, pmap(lambda j: one(j[:3]), unknown)):
        ck.evaluated()
        ck.validated()
        ck.nontrivial(key)
        problem = None
        if r["fs_changed"]:
            problem = f"the working directory changed: {r['fs_changed']}"
        elif r["canary_ran"]:
            problem = "a process was started (canary executable ran)"
        elif r["timed_out"]:
            problem = "the run hung"
        if problem:
            ck.fail(key, f"{key}: {problem}; output {r['out'][-200:]!r}",
                    {"cmd": "garden playground-run p.gdn" if off is None else f"garden sandboxed-test p.gdn {off}", "src": src, "real": r})
    results = pmap(lambda j: one(j[:3]), jobs)
    refused = 0
    for (key, src, off, c), r in zip(jobs, results):
        ck.evaluated()
        ck.validated()
        cls = classify(r, off is not None)
        wellformed = c["expect"] != "error"
        if cls == "sandbox":
            refused += 1
        if wellformed:
            ck.nontrivial(key)
        if len(ck.cov["samples"]) < 4 and cls == "sandbox" and "closure" in key:
            ck.sample({"case": key, "program": src, "outcome": cls})
        problem = None
        if r["fs_changed"]:
            problem = f"the working directory changed: {r['fs_changed']}"
        elif r["canary_ran"]:
            problem = "a process was started (canary executable ran)"
        elif cls in ("hang", "crash"):
            problem = f"the run {cls}ed: rc={r['rc']} {r['err'][-150:]}"
        elif "SECRET-LINE" in r["out"]:
            problem = "standard input was read"
        elif cls == "value":
            problem = "the call returned a value instead of the sandbox error"
        elif cls == "error" and wellformed:
            problem = "a well-formed forbidden call ended with another error than the sandbox refusal"
        if problem:
            ck.fail(key, f"{key}: {problem}; output {r['out'][-200:]!r}",
                    {"cmd": "garden playground-run p.gdn" if off is None else f"garden sandboxed-test p.gdn {off}", "src": src, "real": r})
    vacuity(refused > len(jobs) // 3, f"only {refused} of {len(jobs)} runs were refused by the sandbox")
    ck.assumptions += ["effect classes are those of Builtins.tla: fs (read/write/list/copy/remove/mkdir/chdir, Path.exists/info), proc (shell::run), stdin (read_line); env/time/random built-ins are outside the property",
                       "ill-formed calls may be refused with an argument error instead of the sandbox error",
                       "functions of __fs.gdn / __shell.gdn that Builtins.tla does not list are called with arguments built from their declared parameter types and judged by their effects only"]
    return ck.finish(rule="every forbidden-effect call of the Builtins.tla matrix (well-formed, each argument of every other kind, arity +-1) x call position (top level, function, closure passed to map, sandboxed test, namespace alias, unqualified import); "
                          "non-trivial = well-formed calls (the ones that would have an effect); checked: directory snapshot, canary executable, stdin line, outcome class")


def replay(rec):
    r = rec["replay"]
    off = None if "playground" in r["cmd"] else int(r["cmd"].split()[-1])
    res = one(("replay", r["src"], off))
    print(res)
    return 1 if (res["fs_changed"] or res["canary_ran"] or classify(res, off is not None) in ("value", "hang", "crash")) else 0
