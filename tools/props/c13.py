"""C13 `==` is structural equality on values.

Spec: spec/Display.tla VEq -- kinds first, then contents; floats by canonical
text, dicts by keys and values, variants by name and payload, structs by type
and fields (reflexive, symmetric and transitive because it is TLA+ equality on
the erased value).  TLC evaluates VEq on pairs of the value pool.  Binding:
`garden run` programs compare two SEPARATELY CONSTRUCTED values (literal route
vs arithmetic / concatenation / append / set route; never the same variable):
`a == b` must print VEq(a, b) and `a != b` its negation."""
import os
import random
import shutil

from common import Check, ToolError, batch, run_program, scratch_dir, tlc, tlc_ok, vacuity, write_ndjson
import valuepool as vp


def same_shape(a, b):
    return a["k"] == b["k"]


def run(tier, seed):
    ck = Check("C13", "model_checking", tier, seed)
    rnd = random.Random(seed)
    vals = vp.pool(tier)
    pairs = []
    for i, v in enumerate(vals):
        pairs.append((i, i))                      # reflexivity on separately built copies
    by_kind = {}
    for i, v in enumerate(vals):
        by_kind.setdefault(v["k"], []).append(i)
    for k, idx in by_kind.items():
        sel = idx if len(idx) <= 12 else rnd.sample(idx, 12 if tier == "quick" else 40)
        for i in sel:
            for j in sel:
                if i != j:
                    pairs.append((i, j))
    for _ in range(300 if tier == "quick" else 3000):
        pairs.append((rnd.randrange(len(vals)), rnd.randrange(len(vals))))
    # near misses: same container, one element changed
    extra = []
    base = [vp.L(vp.I(1), vp.I(2)), vp.T(vp.I(1), vp.S("a")), vp.D([("a", vp.I(1))]), vp.E("Some", vp.L()), vp.ST(vp.I(1), vp.S("s")),
            vp.L(vp.L(vp.I(1))), vp.E("Ok", vp.E("None")), vp.E("V2", vp.I(3))]
    near = [vp.L(vp.I(1), vp.I(3)), vp.T(vp.I(1), vp.S("b")), vp.D([("a", vp.I(2))]), vp.E("Some", vp.L(vp.I(1))), vp.ST(vp.I(1), vp.S("t")),
            vp.L(vp.L(vp.I(2))), vp.E("Ok", vp.E("Some", vp.I(1))), vp.E("V2", vp.I(4)),
            vp.L(vp.I(1)), vp.T(vp.I(1)), vp.D([("b", vp.I(1))]), vp.E("Err", vp.L()), vp.ST(vp.I(2), vp.S("s"))]
    # variants of DIFFERENT enums that share a variant index and payload
    cross = [(vp.E("None"), vp.E("False")), (vp.E("True"), vp.E("Unit")), (vp.E("Some", vp.I(1)), vp.E("Ok", vp.I(1))),
             (vp.E("V1"), vp.E("True")), (vp.E("V2", vp.I(3)), vp.E("Err", vp.I(3))), (vp.E("None"), vp.E("Err", vp.I(1))),
             (vp.E("V1"), vp.E("Unit")), (vp.E("Some", vp.S("w")), vp.E("Ok", vp.S("w"))), (vp.E("W1", vp.S("w")), vp.E("Some", vp.S("w"))),
             (vp.L(vp.E("None")), vp.L(vp.E("False"))), (vp.T(vp.I(1), vp.E("True")), vp.T(vp.I(1), vp.E("Unit")))]
    allv = vals + base + near
    nb = len(vals)
    for i in range(len(base)):
        for j in range(len(base) + len(near)):
            pairs.append((nb + i, nb + j))
            pairs.append((nb + j, nb + i))
    cases = [{"id": n, "a": allv[i], "b": allv[j]} for n, (i, j) in enumerate(pairs)]
    for a, b in cross:
        cases.append({"id": len(cases), "a": a, "b": b})
        cases.append({"id": len(cases), "a": b, "b": a})
    # values of DIFFERENT struct types with the same field names (Q), or with them as a prefix (R3): written
    # with the fields in the same order on both sides (same=True) and in opposite orders
    sx = [(vp.ST(vp.I(1), vp.S("s")), vp.STQ(vp.I(1), vp.S("s"))), (vp.ST(vp.I(1), vp.S("s")), vp.STR3(vp.I(1), vp.S("s"), vp.I(0))),
          (vp.STQ(vp.I(1), vp.S("s")), vp.STR3(vp.I(1), vp.S("s"), vp.I(0))), (vp.L(vp.ST(vp.I(1), vp.S("s"))), vp.L(vp.STQ(vp.I(1), vp.S("s")))),
          (vp.E("Some", vp.ST(vp.I(2), vp.S(""))), vp.E("Some", vp.STQ(vp.I(2), vp.S("")))), (vp.ST(vp.I(1), vp.S("s")), vp.ST(vp.I(1), vp.S("s")))]
    for a, b in sx:
        for x, y in ((a, b), (b, a)):
            cases.append({"id": len(cases), "a": x, "b": y})
            cases.append({"id": len(cases), "a": x, "b": y, "same": True})
    d = scratch_dir("c13")
    try:
        path = os.path.join(d, "cases.ndjson")
        write_ndjson(path, cases)
        res = tlc("EvalDisplay", env={"CASES": path}, workers=8, timeout=2400)
    finally:
        shutil.rmtree(d, ignore_errors=True)
    tlc_ok(res, "EvalDisplay (VEq)")
    ck.add_tlc(res)
    exp = {e["id"]: e["eq"] for e in res.tag("EQ")}
    if len(exp) != len(cases):
        raise ToolError(f"EvalDisplay printed {len(exp)} results for {len(cases)} pairs")
    recs = []
    for c in cases:
        a, b = vp.src(c["a"]), (vp.src(c["b"]) if c.get("same") else vp.src_alt(c["b"]))
        recs.append({"id": c["id"], "src": vp.PRE + f"let va = {a}\nlet vb = {b}\nprintln(string_repr(va == vb))\nprintln(string_repr(va != vb))\nprintln(string_repr(vb == va))"})
    out = batch("run", recs)
    ntrue = 0
    for c, rec, r in zip(cases, recs, out):
        ck.evaluated()
        ck.validated()
        want = exp[c["id"]]
        ntrue += 1 if want else 0
        key = f"C13 {vp.src(c['a'])[:80]} == {vp.src_alt(c['b'])[:80]}"
        if c["a"]["k"] not in ("Int",) or want:
            ck.nontrivial(key)
        if len(ck.cov["samples"]) < 5 and c["a"]["k"] in ("Dict", "Enum", "Float") and want:
            ck.sample({"a": vp.src(c["a"]), "b": vp.src_alt(c["b"]), "structurally_equal": want})
        t = "True" if want else "False"
        f = "False" if want else "True"
        expect_out = f"{t}\n{f}\n{t}\n"
        if r.get("outcome") != "ok" or r.get("stdout") != expect_out:
            ck.fail(key, f"a = {vp.src(c['a'])}, b = {vp.src_alt(c['b'])}: structural equality is {want}, program printed (a == b, a != b, b == a) = {(r.get('stdout') or '').split()} {r.get('message') or r.get('panic') or ''}",
                    {"cmd": "garden run p.gdn", "src": rec["src"], "expected": expect_out, "real": r})
    vacuity(ntrue > 100, f"only {ntrue} pairs are structurally equal")
    ck.assumptions += ["values are built by two different routes so that no sharing of runtime representation can make them equal by accident",
                       "transitivity follows from agreement with VEq (an equivalence) on all compared pairs, it is not tested separately"]
    return ck.finish(rule="reflexive pairs (two construction routes) for every pool value, all ordered pairs within a kind (sampled above 12 per kind), seeded random cross-kind pairs, near-miss pairs differing in one element / key / payload / length, and variants of different enums sharing index and payload; "
                          "each pair checks a == b, a != b and b == a; non-trivial = non-integer or equal pairs")


def replay(rec):
    rc, out, err = run_program(rec["replay"]["src"])
    print(rc, repr(out), err[-200:])
    return 0 if out == rec["replay"].get("expected") else 1
