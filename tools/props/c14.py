"""C14 Subtyping is a preorder with the documented variance.
C15 Inferred types of lists and branches cover every element (c15.py reuses this).

Spec: spec/Types.tla -- Sub (Any top, NoValue bottom, parameters only related
to themselves, tuples and nominal types covariant, functions contravariant in
parameters and covariant in the result) and Join (what the checker reports
when it combines types).  TLC checks reflexivity, top/bottom, the variance
laws, join-is-an-upper-bound and join idempotence on all pairs of Full(1) (101
types), transitivity and the folded join on all triples of Reduced(1) (64000),
and prints the relation.  Binding: hook `verif-batch subtype` evaluates the
real is_subtype (both directions) and unify on the same pairs, plus seeded
random pairs of depth <= 3 evaluated by TLC from a file; every bit must agree."""
import json
import os
import random
import shutil

from common import SPEC, Check, ToolError, batch, scratch_dir, tlc, tlc_ok, vacuity, write_ndjson


def mc(mode, depth, env=None):
    name = f"MC_Types_{mode}_{os.getpid()}.cfg"
    with open(os.path.join(SPEC, name), "w") as f:
        f.write(f'CONSTANTS\n  Mode = "{mode}"\n  Depth = {depth}\nINIT Init\nNEXT Next\nINVARIANT Laws\nINVARIANT Emit\nCHECK_DEADLOCK FALSE\n')
    try:
        res = tlc("MC_Types", cfg=name, env=env, workers=8, timeout=2400, heap="8g")
    finally:
        os.remove(os.path.join(SPEC, name))
    tlc_ok(res, f"MC_Types mode={mode} (laws)")
    return res


LEAVES = [{"k": "Any"}, {"k": "NoValue"}, {"k": "User", "name": "Int", "args": []}, {"k": "User", "name": "String", "args": []},
          {"k": "Param", "name": "T"}, {"k": "Param", "name": "U"}, {"k": "User", "name": "Bool", "args": []}]


def rand_type(rnd, d):
    if d == 0 or rnd.random() < 0.3:
        return rnd.choice(LEAVES)
    c = rnd.random()
    if c < 0.3:
        return {"k": "User", "name": rnd.choice(["List", "Option"]), "args": [rand_type(rnd, d - 1)]}
    if c < 0.45:
        return {"k": "User", "name": rnd.choice(["Pair", "Result"]), "args": [rand_type(rnd, d - 1), rand_type(rnd, d - 1)]}
    if c < 0.7:
        return {"k": "Tuple", "args": [rand_type(rnd, d - 1) for _ in range(rnd.randint(0, 3))]}
    return {"k": "Fun", "params": [rand_type(rnd, d - 1) for _ in range(rnd.randint(0, 2))], "ret": rand_type(rnd, d - 1)}


def mutate(rnd, t, d=2):
    """A type close to t (so that related pairs are frequent)."""
    c = rnd.random()
    if c < 0.3:
        return t
    if c < 0.45:
        return {"k": "NoValue"}
    if c < 0.55:
        return {"k": "Any"}
    if t["k"] in ("User", "Tuple") and t.get("args"):
        i = rnd.randrange(len(t["args"]))
        a = list(t["args"])
        a[i] = mutate(rnd, a[i], d - 1)
        return dict(t, args=a)
    if t["k"] == "Fun":
        if t["params"] and rnd.random() < 0.5:
            i = rnd.randrange(len(t["params"]))
            p = list(t["params"])
            p[i] = mutate(rnd, p[i], d - 1)
            return dict(t, params=p)
        return dict(t, ret=mutate(rnd, t["ret"], d - 1))
    return rand_type(rnd, 1)


def norm(t):
    if t is None:
        return None
    if t["k"] == "User":
        return {"k": "User", "name": t["name"], "args": [norm(x) for x in t.get("args", [])]}
    if t["k"] == "Tuple":
        return {"k": "Tuple", "args": [norm(x) for x in t.get("args", [])]}
    if t["k"] == "Fun":
        return {"k": "Fun", "params": [norm(x) for x in t.get("params", [])], "ret": norm(t["ret"])}
    return {k: v for k, v in t.items() if k in ("k", "name")}


def show(t):
    k = t["k"]
    if k in ("Any", "NoValue"):
        return k
    if k == "Param":
        return t["name"]
    if k == "User":
        return t["name"] + ("<" + ", ".join(show(x) for x in t["args"]) + ">" if t["args"] else "")
    if k == "Tuple":
        return "(" + ", ".join(show(x) for x in t["args"]) + ")"
    return "Fun<(" + ", ".join(show(x) for x in t["params"]) + "), " + show(t["ret"]) + ">"


# ---- C15, the n-ary path: list literals and match arms of three elements, typed by the real checker
U = lambda name, *args: {"k": "User", "name": name, "args": list(args)}
NV, INT_T, STR_T = {"k": "NoValue"}, U("Int"), U("String")
POOL = [("1", INT_T), ('"s"', STR_T), ("None", U("Option", NV)), ("Some(1)", U("Option", INT_T)), ('Some("s")', U("Option", STR_T)),
        ("[]", U("List", NV)), ("[1]", U("List", INT_T)), ('["s"]', U("List", STR_T)), ('(1, "s")', {"k": "Tuple", "args": [INT_T, STR_T]}),
        ("(1, [])", {"k": "Tuple", "args": [INT_T, U("List", NV)]}), ("(1, [2])", {"k": "Tuple", "args": [INT_T, U("List", INT_T)]}),
        ("Ok(1)", U("Result", INT_T, NV)), ('Err("x")', U("Result", NV, STR_T)), ("[[]]", U("List", U("List", NV))),
        ("[[1]]", U("List", U("List", INT_T))), ("Some(None)", U("Option", U("Option", NV))), ("Some(Some(1))", U("Option", U("Option", INT_T))),
        ("[None]", U("List", U("Option", NV))), ("[Some(1)]", U("List", U("Option", INT_T)))]


def parse_type(text):
    """The printed form of a type (`List<Option<Int>>`, `(Int, String)`, `Fun<(Int), Unit>`) -> JSON, or None."""
    pos = [0]
    t = text.strip()

    def ws():
        while pos[0] < len(t) and t[pos[0]] == " ":
            pos[0] += 1

    def items(close):
        out = []
        ws()
        if t[pos[0]:pos[0] + 1] == close:
            pos[0] += 1
            return out
        while True:
            out.append(ty())
            ws()
            c = t[pos[0]:pos[0] + 1]
            pos[0] += 1
            if c == close:
                return out
            if c != ",":
                raise ValueError(t)
            ws()
            if t[pos[0]:pos[0] + 1] == close:         # trailing comma of a one-tuple
                pos[0] += 1
                return out

    def ty():
        ws()
        if t[pos[0]:pos[0] + 1] == "(":
            pos[0] += 1
            return {"k": "Tuple", "args": items(")")}
        j = pos[0]
        while j < len(t) and (t[j].isalnum() or t[j] == "_"):
            j += 1
        name = t[pos[0]:j]
        if not name or not name[0].isupper():
            raise ValueError(t)
        pos[0] = j
        args = []
        if t[pos[0]:pos[0] + 1] == "<":
            pos[0] += 1
            args = items(">")
        if name in ("Any", "NoValue") and not args:
            return {"k": name}
        if name == "Fun" and len(args) == 2 and args[0]["k"] == "Tuple":
            return {"k": "Fun", "params": args[0]["args"], "ret": args[1]}
        return {"k": "User", "name": name, "args": args}
    try:
        r = ty()
        ws()
        return r if pos[0] == len(t) else None
    except (ValueError, IndexError):
        return None


def literal_inference(ck, prop, tier, rnd):
    """Triples of the pool as a list literal and as the arms of a three-case match: the type the real checker
    infers (hover) must be a supertype (Types.tla Sub, evaluated by TLC) of every element's / arm's type."""
    from common import garden, pmap
    triples = [(a, b, c) for a in POOL for b in POOL for c in POOL]
    rnd.shuffle(triples)
    triples = triples[:500 if tier == "quick" else 4000]
    # the shape a fold over the elements gets wrong when it only looks at some of them: the informative
    # element in the middle, uninformative ones around it
    triples += [(POOL[i], POOL[j], POOL[i]) for i in (2, 5, 13, 15, 17) for j in (3, 6, 14, 16, 18)]
    d = scratch_dir("c15lit")
    jobs = []
    try:
        for n, (a, b, c) in enumerate(triples):
            form = "list" if n % 2 == 0 else "match"
            if form == "list":
                src = f"fun zf() {{\n  let zl = [{a[0]}, {b[0]}, {c[0]}]\n  //  ^\n}}\n"
            else:
                src = ("enum E3 { A3, B3, C3 }\nfun zf(ze: E3) {\n  let zm = match ze { A3 => { " + a[0] + " } B3 => { " + b[0] + " } C3 => { " + c[0] + " } }\n  //  ^\n}\n")
            path = os.path.join(d, f"h{n}.gdn")
            with open(path, "w") as f:
                f.write(src)
            jobs.append((form, (a, b, c), src, path))
        outs = pmap(lambda j: garden(["reftest-hover", j[3]], timeout=20, cwd=d), jobs)
    finally:
        shutil.rmtree(d, ignore_errors=True)
    judged = []
    for (form, tr, src, _), (rc, out, err) in zip(jobs, outs):
        ck.evaluated()
        ck.validated()
        key = f"{prop} inferred type of {form} " + ", ".join(x[0] for x in tr)
        if rc is None or rc in (101, 134) or (rc is not None and rc < 0):
            ck.fail(key, f"{key}: hover crashed or hung (exit {rc}): {err[-160:]}", {"cmd": "garden reftest-hover p.gdn", "src": src})
            continue
        t = parse_type(out.strip().split("\n")[0] if out.strip() else "")
        if t is None:
            continue                     # no type reported (incompatible elements are an error, not a type)
        cover = t
        if form == "list":
            if not (t["k"] == "User" and t["name"] == "List" and len(t["args"]) == 1):
                ck.fail(key, f"{key}: the checker reports {out.strip()[:80]!r} for a list literal", {"cmd": "garden reftest-hover p.gdn", "src": src})
                continue
            cover = t["args"][0]
        judged.append((key, src, tr, cover, out.strip()))
        ck.nontrivial(key)
    dd = scratch_dir("types")
    try:
        path = os.path.join(dd, "pairs.ndjson")
        write_ndjson(path, [{"a": x[1], "b": cover} for _, _, tr, cover, _ in judged for x in tr])
        r5 = mc("file", 0, env={"PAIRS": path})
    finally:
        shutil.rmtree(dd, ignore_errors=True)
    ck.add_tlc(r5)
    sub = {(json.dumps(norm(z["a"]), sort_keys=True), json.dumps(norm(z["b"]), sort_keys=True)): z["ab"] for z in r5.tag("REL")}
    for key, src, tr, cover, shown in judged:
        for x in tr:
            if not sub[(json.dumps(norm(x[1]), sort_keys=True), json.dumps(norm(cover), sort_keys=True))]:
                ck.fail(key, f"{key}: the checker infers {shown}, which does not cover the element {x[0]} of type {show(x[1])} (Types.tla Sub)",
                        {"cmd": "garden reftest-hover p.gdn", "src": src})
                break
    vacuity(len(judged) > 100, f"only {len(judged)} literals got a type")
    return len(judged)


def run_prop(prop, tier, seed):
    ck = Check(prop, "model_checking", tier, seed)
    rnd = random.Random(seed)
    r1 = mc("pairs", 1)
    ck.add_tlc(r1)
    r2 = mc("triples", 1)
    ck.add_tlc(r2)
    rels = r1.tag("REL")
    n = 3000 if tier == "quick" else 40000
    pairs = []
    for i in range(n):
        a = rand_type(rnd, 3)
        b = mutate(rnd, a) if rnd.random() < 0.7 else rand_type(rnd, 3)
        pairs.append({"a": a, "b": b} if rnd.random() < 0.5 else {"a": b, "b": a})
    d = scratch_dir("types")
    try:
        path = os.path.join(d, "pairs.ndjson")
        write_ndjson(path, pairs)
        r3 = mc("file", 0, env={"PAIRS": path})
    finally:
        shutil.rmtree(d, ignore_errors=True)
    ck.add_tlc(r3)
    rels = rels + r3.tag("REL")
    real = batch("subtype", [{"id": i, "a": r["a"], "b": r["b"]} for i, r in enumerate(rels)])
    related = 0
    judged, differs = [], []
    for r, x in zip(rels, real):
        ck.evaluated()
        ck.validated()
        key = f"{prop} {show(r['a'])} vs {show(r['b'])}"
        if x.get("outcome") == "panic":
            ck.fail(key, f"{key}: the implementation panicked: {x.get('panic')}", {"cmd": "garden verif-batch subtype", "a": r["a"], "b": r["b"]})
            continue
        if prop == "C14":
            if r["ab"] and r["a"] != r["b"]:
                related += 1
                ck.nontrivial(key)
            if len(ck.cov["samples"]) < 5 and r["ab"] and r["a"]["k"] == "Fun" and r["a"] != r["b"]:
                ck.sample({"a": show(r["a"]), "b": show(r["b"]), "a_subtype_of_b": r["ab"], "b_subtype_of_a": r["ba"]})
            if x["ab"] != r["ab"] or x["ba"] != r["ba"]:
                ck.fail(key, f"is_subtype({show(r['a'])}, {show(r['b'])}) = {x['ab']} / reverse {x['ba']}; the specification says {r['ab']} / {r['ba']}",
                        {"cmd": "garden verif-batch subtype", "a": r["a"], "b": r["b"], "expected": [r["ab"], r["ba"]], "real": [x["ab"], x["ba"]]})
        else:
            # C15 judges what the real unify returns with the specification's Sub (second TLC pass below):
            # it must be an upper bound of both, and the same type when both are equal.  Whether it is the
            # specification's own Join is reported as information only (a better join is not a violation).
            want = None if r["join"]["k"] == "NoJoin" else norm(r["join"])
            got = norm(x.get("unify"))
            if got is not None and r["a"] != r["b"]:
                related += 1
                ck.nontrivial(key)
            if len(ck.cov["samples"]) < 5 and got is not None and got["k"] == "User" and r["a"] != r["b"]:
                ck.sample({"a": show(r["a"]), "b": show(r["b"]), "unify": show(got)})
            if got is not None:
                if norm(r["a"]) == norm(r["b"]) and got != norm(r["a"]):
                    ck.fail(key, f"unify of {show(r['a'])} with itself gives {show(got)}", {"cmd": "garden verif-batch subtype", "a": r["a"], "b": r["b"], "real": got})
                judged.append((r, got))
                if want != got:
                    differs.append(key)
    if prop == "C15" and judged:
        d = scratch_dir("types")
        try:
            path = os.path.join(d, "pairs.ndjson")
            write_ndjson(path, [{"a": r["a"], "b": g} for r, g in judged] + [{"a": r["b"], "b": g} for r, g in judged])
            r4 = mc("file", 0, env={"PAIRS": path})
        finally:
            shutil.rmtree(d, ignore_errors=True)
        ck.add_tlc(r4)
        sub = {(json.dumps(norm(z["a"]), sort_keys=True), json.dumps(norm(z["b"]), sort_keys=True)): z["ab"] for z in r4.tag("REL")}
        for r, g in judged:
            for side in ("a", "b"):
                if not sub[(json.dumps(norm(r[side]), sort_keys=True), json.dumps(g, sort_keys=True))]:
                    key = f"{prop} {show(r['a'])} vs {show(r['b'])}"
                    ck.fail(key, f"unify({show(r['a'])}, {show(r['b'])}) = {show(g)}, which is not a supertype of {show(r[side])} (Types.tla Sub)",
                            {"cmd": "garden verif-batch subtype", "a": r["a"], "b": r["b"], "real": g})
                    break
    nlit = literal_inference(ck, prop, tier, rnd) if prop == "C15" else 0
    vacuity(related > 300, f"only {related} non-trivially related pairs")
    ck.assumptions += ["well-formed types without checker errors (Error types excluded, as the property says); nominal types are used with a fixed arity",
                       "bounded: all pairs of the 101 types of depth <= 1, all 64000 triples of the reduced signature, and seeded pairs of depth <= 3; no unbounded proof is claimed"]
    return ck.finish(rule="all 10201 pairs of Full(1) plus seeded pairs of depth <= 3 (70% are one-position mutations of each other so that related pairs are frequent); non-trivial = distinct related pairs",
                     exhaustive=False, extra=({"unify_results_judged": len(judged), "results_other_than_the_specification_join": len(differs),
                                               "list_literals_and_matches_judged": nlit} if prop == "C15" else None))


def run(tier, seed):
    return run_prop("C14", tier, seed)


def replay(rec):
    r = rec["replay"]
    x = batch("subtype", [{"id": 0, "a": r["a"], "b": r["b"]}])[0]
    print(x)
    return 1
