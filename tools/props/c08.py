"""C08 An evaluation interrupted anywhere resumes to the same outcome.

Spec: spec/Session.tla -- SetInterrupt is a free action, so TLC places up to
MaxInterrupts interrupts before every tick of every program of the bounded
family and checks InterruptInvisible (the finished evaluation equals Ref's
result).  Binding (hook H2, GARDEN_VERIF_INTERRUPT_AT): the real JSON session
is interrupted at EVERY tick k of each program (and at seeded pairs/triples),
resumed until it finishes, and its concatenated output and final answer must
equal the uninterrupted session's and the output Ref.tla predicts."""
import os
import random
import shutil

from common import Check, ToolError, batch, pmap, scratch_dir, tlc, tlc_ok, vacuity, write_ndjson
import refrun
from session import run_req, run_session, split_by_request, final_of_evaluation, normalize_answer


def interrupted_run(src, ks, nres):
    env = {"GARDEN_VERIF_INTERRUPT_AT": ",".join(str(k) for k in ks)} if ks else None
    reqs = [run_req(src)] + [run_req(":resume")] * nres
    rc, resps, err = run_session(reqs, env=env, timeout=60)
    groups, trailing = split_by_request(resps)
    out, ans = final_of_evaluation(groups)
    n_int = sum(1 for _, a in groups if a[0] == "interrupted")
    ans = normalize_answer(ans)
    return {"rc": rc, "out": out, "ans": list(ans[:4]) if ans else None, "interrupts": n_int, "stderr": err[-300:]}


def run(tier, seed):
    ck = Check("C08", "model_checking", tier, seed)
    rnd = random.Random(seed)
    # ---- design level: TLC places interrupts everywhere (small programs)
    nmc = 25 if tier == "quick" else 150
    progs, _ = refrun.gen_programs(seed + 7, nmc, 3)
    d = scratch_dir("c08")
    try:
        path = os.path.join(d, "p.ndjson")
        write_ndjson(path, progs)
        res = tlc("MC_Session", env={"PROGS": path}, workers=8, heap="8g", timeout=1500)
        tlc_ok(res, "MC_Session")
        ck.add_tlc(res)
    finally:
        shutil.rmtree(d, ignore_errors=True)

    # ---- conformance: interrupt the real session at every tick
    nprog, size, cap = (14, 3, 120) if tier == "quick" else (40, 4, 200)
    progs, srcs = refrun.gen_programs(seed, nprog, size, err_rate=0.15, features={"session_safe": True, "tracer": 0.3, "ext": True})
    # every second program ends in an expression whose value is the request's answer: an interrupt at the very
    # last tick must not lose it
    import gen_prog
    for p in progs:
        if p["id"] % 2 == 0:
            g = gen_prog.Gen(0)
            g.nid = 800000
            last = g.node("paren", e=g.node("bin", op="+", l=g.node("int", v=40), r=g.node("int", v=2))) if p["id"] % 4 == 0 else g.node("int", v=42)
            p["main"].append(last)
            srcs[p["id"]] = gen_prog.render(p)
    tres, exp = refrun.ref_expect(progs)
    ck.add_tlc(tres)
    base = batch("run", [{"id": p["id"], "src": srcs[p["id"]]} for p in progs])
    jobs = []
    for p, b in zip(progs, base):
        pid = p["id"]
        e = exp[pid]
        if e["outcome"] in ("fuel", "big") or b.get("outcome") in ("panic", "died", "parse_error"):
            continue
        T = b.get("ticks", 0)
        if T == 0:
            continue
        ks = list(range(1, T + 2))
        if len(ks) > cap:
            ks = sorted(rnd.sample(ks, cap))
        jobs.append((pid, [], 0))
        for k in ks:
            jobs.append((pid, [k], 2))
        for _ in range(6 if tier == "quick" else 30):
            m = rnd.choice([2, 3])
            kk = sorted(rnd.sample(range(1, T + m + 1), min(m, T)))
            jobs.append((pid, kk, len(kk) + 1))
    results = pmap(lambda j: interrupted_run(srcs[j[0]], j[1], j[2]), jobs)
    baseline = {}
    for (pid, ks, _), r in zip(jobs, results):
        if not ks:
            baseline[pid] = r
    fired = 0
    for (pid, ks, nres), r in zip(jobs, results):
        ck.evaluated()
        b = baseline[pid]
        e = exp[pid]
        if not ks:
            # the uninterrupted session itself must print what Ref predicts
            if b["out"] != e["out"]:
                raise ToolError(f"session output differs from Ref for program {pid} (C05 territory): {b['out'][-80:]!r} vs {e['out'][-80:]!r}")
            continue
        ck.validated()
        if r["interrupts"] > 0:
            fired += 1
            ck.nontrivial(f"{refrun.src_hash(srcs[pid])}:{ks}")
        ck.sample({"program": srcs[pid][:200], "interrupt_at_ticks": ks, "final": r["ans"], "stdout": r["out"][-60:]})
        same = (r["rc"] == 0 and r["out"] == b["out"] and r["ans"] == b["ans"])
        if not same:
            key = f"C08 seed={seed} prog={pid} ticks={ks}"
            ck.fail(key, f"interrupt at ticks {ks}: out={r['out'][-80:]!r} ans={r['ans']} rc={r['rc']}; uninterrupted: out={b['out'][-80:]!r} ans={b['ans']}",
                    {"cmd": f"GARDEN_VERIF_INTERRUPT_AT={','.join(map(str, ks))} garden reftest-json-session s.json",
                     "requests": [run_req(srcs[pid])] + [run_req(":resume")] * nres, "expected": b, "real": r})
    vacuity(fired > len(jobs) // 2, f"only {fired} of {len(jobs)} sessions were actually interrupted")
    ck.assumptions += ["the interrupt is injected by hook H2 through the same AtomicBool a real interrupt request sets; delivery latency of real requests is not modelled",
                       "ticks are the implementation's; the model's tick granularity is coarser for built-in calls, so placement is exhaustive on each side separately"]
    return ck.finish(rule="every tick k of each generated program (capped per program) plus seeded pairs/triples; non-trivial = sessions in which at least one interrupt actually fired; "
                          "compared: concatenated stdout and final answer (value or error message+position) with the uninterrupted session, and stdout with Ref.tla",
                     extra={"sessions_interrupted": fired})


def replay(rec):
    r = rec["replay"]
    ks = r["cmd"].split("=")[1].split(" ")[0].split(",")
    src = r["requests"][0]["input"]
    got = interrupted_run(src, ks, len(r["requests"]) - 1)
    base = interrupted_run(src, [], 0)
    bad = got["out"] != base["out"] or got["ans"] != base["ans"]
    print("still violates" if bad else "no longer violates", got, base)
    return 1 if bad else 0
