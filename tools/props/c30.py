"""C30 nREPL delivers one final `done` per request, after all its output.
(C31 shares this module: see c31.py.)

Spec: spec/Nrepl.tla -- reader, per-session workers, output flushers, writer,
one response channel.  TLC checks AtMostOneDone, DoneIsLast, OutputComplete
and InterruptedOnlyIfAsked on every interleaving of seven client scenarios
(MC_Nrepl) and the liveness properties on the finite ones (MC_NreplLive).
Binding (impl -> spec): the real server, with seeded schedule perturbation at
its critical sections (hook H3), is driven by seeded scenarios (pipelined and
delayed requests; printing, failing, looping and printing-loop evals; two
sessions; interrupts before / while queued / during / after; close; unknown
sessions and ops); the client logs every send and every received message, and
TLC (NreplTrace) must find an interleaving of the silent server steps that
explains the log.  The binding is demonstrated on every run: corrupted copies
of accepted traces must be rejected."""
import copy
import json

from common import Check, ToolError, pmap, tlc, tlc_ok, vacuity
import nrepl_trace as nt


def corruptions(ab):
    """Corrupted copies of an accepted trace, each of which the spec must reject."""
    out = []
    dones = [i for i, e in enumerate(ab) if e.get("kind") == "done" and e["id"].startswith("e")]
    outs = [i for i, e in enumerate(ab) if e.get("kind") == "out"]
    if dones:
        c = copy.deepcopy(ab)
        del c[dones[-1]]
        # dropping the last done only matters if something of that connection follows; append a probe
        out.append(("drop a done", c if len(c) > dones[-1] else None))
        c2 = copy.deepcopy(ab)
        c2.insert(dones[0] + 1, copy.deepcopy(ab[dones[0]]))
        out.append(("duplicate a done", c2))
    if outs:
        i = outs[0]
        j = next((d for d in dones if d > i and ab[d]["id"] == ab[i]["id"]), None)
        if j is not None:
            c3 = copy.deepcopy(ab)
            e = c3.pop(i)
            c3.insert(j, e)          # the output now arrives after its done
            out.append(("output after done", c3))
        c4 = copy.deepcopy(ab)
        c4[i]["text"] = c4[i]["text"] + "Z"
        out.append(("altered output text", c4))
    vals = [i for i, e in enumerate(ab) if e.get("kind") == "value"]
    if vals:
        c5 = copy.deepcopy(ab)
        c5[vals[0]]["kind"] = "err"
        c5[vals[0]]["text"] = "#ERROR"
        out.append(("value turned into an error", c5))
    return [(n, c) for n, c in out if c]


def run_focus(prop, focus, tier, seed, extra_rule):
    ck = Check(prop, "model_checking", tier, seed)
    mc = tlc("MC_Nrepl", workers=8, timeout=1500, heap="8g")
    tlc_ok(mc, "MC_Nrepl (safety)")
    ck.add_tlc(mc)
    live = tlc("MC_Nrepl", cfg="MC_NreplLive.cfg", workers=8, timeout=1500, heap="8g")
    tlc_ok(live, "MC_Nrepl (liveness)")
    ck.add_tlc(live)
    n = 24 if tier == "quick" else 240
    seeds = [seed * 100003 + i for i in range(n)]

    def one(s):
        sc, events = nt.record(s, focus, sched=(s % 4 != 0))
        ab = nt.to_events(sc, events)
        ok, res, un = nt.validate(ab, f"{prop}-{s}", timeout=300)
        return s, sc, ab, ok, res, un

    results = pmap(one, seeds, workers=6)  # each run: a real server + a TLC validation (<= 300 s)
    accepted = []
    flushed = 0
    for s, sc, ab, ok, res, un in results:
        ck.evaluated()
        ck.validated()
        ck.add_tlc(res)
        key = f"{prop} scenario seed={s}"
        kinds = [e.get("kind") for e in ab if e["ev"] == "recv"]
        ids_with_early_out = {e["id"] for i, e in enumerate(ab) if e.get("kind") in ("out", "err") and e["text"] != "#ERROR"}
        if ids_with_early_out:
            flushed += 1
            ck.nontrivial(key)
        if len(ck.cov["samples"]) < 3:
            ck.sample({"seed": s, "trace": [(e["ev"], e.get("op") or e.get("kind"), e.get("id", ""), e.get("text", "")) for e in ab if e["ev"] != "reset"][:14]})
        if ok:
            accepted.append((s, ab))
        else:
            ck.fail(key, f"{key}: the recorded trace is not a behaviour of Nrepl.tla; first unexplained event: {json.dumps(un)[:300]}",
                    {"cmd": f"python3 tools/nrepl_replay.py {s} {focus}", "seed": s, "focus": focus, "unmatched": un, "trace": ab})
    # ---- binding demonstration: corrupted traces must be rejected
    rejected, tried = 0, 0
    for s, ab in accepted[:4]:
        for name, c in corruptions(ab):
            tried += 1
            ok, res, un = nt.validate(c, f"{prop}-c{s}")
            if ok:
                raise ToolError(f"binding is vacuous: corrupted trace ({name}, seed {s}) was accepted by NreplTrace")
            rejected += 1
    if prop == "C30":
        large_output(ck, seed)
    vacuity(tried >= 4, "no corrupted trace could be built")
    vacuity(flushed >= n // 3, f"only {flushed} traces carry output messages")
    ck.assumptions += ["the exhaustive claim is about the model; trace validation sees the schedules the kernel and hook H3 produce",
                       "the text of error messages is not compared (#ERROR); which chunks the flusher cuts is left to the search",
                       "a request printing 256 KiB is judged by the same invariant evaluated outside TLC (the trace search cannot carry texts of that size)"]
    return ck.finish(rule=f"seeded scenarios ({focus} focus) of 4-10 requests over 10 eval scripts + interrupt / close / clone / unknown session / unknown op, with seeded delays (0-350 ms) and schedule perturbation in 3 of 4 runs; "
                          f"non-trivial = traces with at least one output message; {extra_rule}",
                     extra={"corrupted_traces_rejected": rejected})


BIG_CODE = 'let bs = "0123456789abcdef" let bi = 0 while bi < 14 { bs = bs ^ bs bi += 1 } print(bs) println("end") 1'
BIG_TEXT = "0123456789abcdef" * 16384 + "end\n"


def large_output(ck, seed):
    """Nrepl.tla's AllOutputDelivered (the out messages of a request, concatenated, are what it printed, and
    its final message comes after them) on a request that prints a quarter of a megabyte just before it ends.
    TLC cannot carry texts of that size through the trace search (it looks for the flusher's cuts character by
    character), so for this one shape the invariant is evaluated here, on the recorded messages."""
    import nrepl_client as nc
    for k in range(3):
        srv = nc.Server(sched_seed=(seed * 7 + k if k else None), max_ms=25)
        try:
            steps = [(0.0, {"op": "clone", "id": "c1"}), (0.3 if k != 1 else 0.0, {"op": "eval", "id": "e2", "session": "garden-1", "code": BIG_CODE}),
                     (0.0, {"op": "eval", "id": "e3", "session": "garden-1", "code": "2 + 2"})]
            events, closed = nc.run_scenario(srv, steps, quiet_s=0.8, max_s=60.0, tail_s=20.0)
        finally:
            srv.stop()
        ck.evaluated()
        ck.validated()
        key = f"C30 large output run={k}"
        ck.nontrivial(key)
        msgs = [m for kind, m in events if kind == "recv" and nc.text(m.get("id", b"")) == "e2"]
        out = "".join(nc.text(m["out"]) for m in msgs if "out" in m)
        finals = [i for i, m in enumerate(msgs) if "status" in m and "done" in [nc.text(x) for x in m["status"]]]
        last_out = max([i for i, m in enumerate(msgs) if "out" in m] + [-1])
        problem = None
        if len(finals) != 1:
            problem = f"{len(finals)} final messages for the request"
        elif out != BIG_TEXT:
            problem = f"the request printed {len(BIG_TEXT)} bytes, the client received {len(out)} in {sum(1 for m in msgs if 'out' in m)} out messages"
        elif last_out > finals[0]:
            problem = "output arrived after the final done"
        if problem:
            ck.fail(key, f"{key}: {problem}", {"cmd": "nREPL: clone, eval BIG_CODE", "code": BIG_CODE, "received_bytes": len(out), "large_output": True})


def run(tier, seed):
    return run_focus("C30", "output", tier, seed, "every trace is checked by TLC against Nrepl.tla with its invariants")


def replay(rec):
    r = rec["replay"]
    if r.get("large_output"):
        ck = Check("C30", "model_checking", "quick", 0)
        large_output(ck, 0)
        print(ck.violations if hasattr(ck, "violations") else "")
        return 1 if getattr(ck, "violations", None) else 0
    ok, res, un = nt.validate(r["trace"], "replay")
    print("accepted" if ok else "rejected", un)
    sc, events = nt.record(r["seed"], r["focus"], sched=(r["seed"] % 4 != 0))
    ab = nt.to_events(sc, events)
    ok2, res2, un2 = nt.validate(ab, "replay2")
    print("re-recorded:", "accepted" if ok2 else "rejected", un2)
    return 0 if ok2 else 1
