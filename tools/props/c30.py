"""C30 nREPL delivers one final `done` per request, after all its output.
(C31 shares this module: see c31.py.)

Spec: spec/Nrepl.tla -- reader, per-session workers, output flushers, writer,
one response channel.  TLC checks AtMostOneDone, DoneIsLast, OutputComplete
and InterruptedOnlyIfAsked on every interleaving of seven client scenarios
(MC_Nrepl) and the liveness properties on the finite ones (MC_NreplLive).
Binding (impl -> spec): the real server, with seeded schedule perturbation at
its critical sections (hook H3), is driven by seeded scenarios (pipelined and
delayed requests; printing, failing, looping and printing-loop evals; two
sessions; interrupts before / while queued / during / after; close; unknown
sessions and ops); the client logs every send and every received message, and
TLC (NreplTrace) must find an interleaving of the silent server steps that
explains the log.  The binding is demonstrated on every run: corrupted copies
of accepted traces must be rejected."""
import copy
import json

from common import Check, ToolError, pmap, tlc, tlc_ok, vacuity
import nrepl_trace as nt


def corruptions(ab):
    """Corrupted copies of an accepted trace, each of which the spec must reject."""
    out = []
    dones = [i for i, e in enumerate(ab) if e.get("kind") == "done" and e["id"].startswith("e")]
    outs = [i for i, e in enumerate(ab) if e.get("kind") == "out"]
    if dones:
        c = copy.deepcopy(ab)
        del c[dones[-1]]
        # dropping the last done only matters if something of that connection follows; append a probe
        out.append(("drop a done", c if len(c) > dones[-1] else None))
        c2 = copy.deepcopy(ab)
        c2.insert(dones[0] + 1, copy.deepcopy(ab[dones[0]]))
        out.append(("duplicate a done", c2))
    if outs:
        i = outs[0]
        j = next((d for d in dones if d > i and ab[d]["id"] == ab[i]["id"]), None)
        if j is not None:
            c3 = copy.deepcopy(ab)
            e = c3.pop(i)
            c3.insert(j, e)          # the output now arrives after its done
            out.append(("output after done", c3))
        c4 = copy.deepcopy(ab)
        c4[i]["text"] = c4[i]["text"] + "Z"
        out.append(("altered output text", c4))
    vals = [i for i, e in enumerate(ab) if e.get("kind") == "value"]
    if vals:
        c5 = copy.deepcopy(ab)
        c5[vals[0]]["kind"] = "err"
        c5[vals[0]]["text"] = "#ERROR"
        out.append(("value turned into an error", c5))
    return [(n, c) for n, c in out if c]


def run_focus(prop, focus, tier, seed, extra_rule):
    ck = Check(prop, "model_checking", tier, seed)
    mc = tlc("MC_Nrepl", workers=8, timeout=1500, heap="8g")
    tlc_ok(mc, "MC_Nrepl (safety)")
    ck.add_tlc(mc)
    live = tlc("MC_Nrepl", cfg="MC_NreplLive.cfg", workers=8, timeout=1500, heap="8g")
    tlc_ok(live, "MC_Nrepl (liveness)")
    ck.add_tlc(live)
    n = 24 if tier == "quick" else 240
    seeds = [seed * 100003 + i for i in range(n)]

    def one(s):
        sc, events = nt.record(s, focus, sched=(s % 4 != 0))
        ab = nt.to_events(sc, events)
        ok, res, un = nt.validate(ab, f"{prop}-{s}", timeout=300)
        return s, sc, ab, ok, res, un

    results = pmap(one, seeds, workers=6)  # each run: a real server + a TLC validation (<= 300 s)
    accepted = []
    flushed = 0
    for s, sc, ab, ok, res, un in results:
        ck.evaluated()
        ck.validated()
        ck.add_tlc(res)
        key = f"{prop} scenario seed={s}"
        kinds = [e.get("kind") for e in ab if e["ev"] == "recv"]
        ids_with_early_out = {e["id"] for i, e in enumerate(ab) if e.get("kind") in ("out", "err") and e["text"] != "#ERROR"}
        if ids_with_early_out:
            flushed += 1
            ck.nontrivial(key)
        if len(ck.cov["samples"]) < 3:
            ck.sample({"seed": s, "trace": [(e["ev"], e.get("op") or e.get("kind"), e.get("id", ""), e.get("text", "")) for e in ab if e["ev"] != "reset"][:14]})
        if ok:
            accepted.append((s, ab))
        else:
            ck.fail(key, f"{key}: the recorded trace is not a behaviour of Nrepl.tla; first unexplained event: {json.dumps(un)[:300]}",
                    {"cmd": f"python3 tools/nrepl_replay.py {s} {focus}", "seed": s, "focus": focus, "unmatched": un, "trace": ab})
    # ---- binding demonstration: corrupted traces must be rejected
    rejected, tried = 0, 0
    for s, ab in accepted[:4]:
        for name, c in corruptions(ab):
            tried += 1
            ok, res, un = nt.validate(c, f"{prop}-c{s}")
            if ok:
                raise ToolError(f"binding is vacuous: corrupted trace ({name}, seed {s}) was accepted by NreplTrace")
            rejected += 1
    vacuity(tried >= 4, "no corrupted trace could be built")
    vacuity(flushed >= n // 3, f"only {flushed} traces carry output messages")
    ck.assumptions += ["the exhaustive claim is about the model; trace validation sees the schedules the kernel and hook H3 produce",
                       "the text of error messages is not compared (#ERROR); which chunks the flusher cuts is left to the search"]
    return ck.finish(rule=f"seeded scenarios ({focus} focus) of 4-10 requests over 10 eval scripts + interrupt / close / clone / unknown session / unknown op, with seeded delays (0-350 ms) and schedule perturbation in 3 of 4 runs; "
                          f"non-trivial = traces with at least one output message; {extra_rule}",
                     extra={"corrupted_traces_rejected": rejected})


def run(tier, seed):
    return run_focus("C30", "output", tier, seed, "every trace is checked by TLC against Nrepl.tla with its invariants")


def replay(rec):
    r = rec["replay"]
    ok, res, un = nt.validate(r["trace"], "replay")
    print("accepted" if ok else "rejected", un)
    sc, events = nt.record(r["seed"], r["focus"], sched=(r["seed"] % 4 != 0))
    ab = nt.to_events(sc, events)
    ok2, res2, un2 = nt.validate(ab, "replay2")
    print("re-recorded:", "accepted" if ok2 else "rejected", un2)
    return 0 if ok2 else 1
