"""C15 Inferred types of lists and branches cover every element.

Same specification and binding as C14 (see c14.py): Types.tla Join with the
laws JoinUpper (the combined type is a supertype of both), JoinIdem and
JoinAllUpper (folding over a sequence as unify_all does), checked by TLC.
Binding (impl -> spec): whatever the real `unify` returns on all pairs of
Full(1) and on seeded deeper pairs is judged by TLC with the specification's
Sub: it must be a supertype of both arguments, and the argument itself when
both are equal.  (Whether it equals the specification's own Join is recorded
as information: a better join is not a violation.)  The n-ary path (unify_all)
is bound through the checker itself: list literals and three-armed matches
over a pool of 19 typed expressions are typed by the real checker (hover) and
the reported type must cover every element's type, again by the
specification's Sub."""
from props import c14


def run(tier, seed):
    return c14.run_prop("C15", tier, seed)


def replay(rec):
    return c14.replay(rec)
