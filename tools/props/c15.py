"""C15 Inferred types of lists and branches cover every element.

Same specification and binding as C14 (see c14.py): Types.tla Join with the
laws JoinUpper (the combined type is a supertype of both), JoinIdem and
JoinAllUpper (folding over a sequence as unify_all does), checked by TLC; the
real `unify` must return exactly the specified join (or nothing where the
specification has none) on all pairs of Full(1) and seeded deeper pairs."""
from props import c14


def run(tier, seed):
    return c14.run_prop("C15", tier, seed)


def replay(rec):
    return c14.replay(rec)
