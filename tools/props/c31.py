"""C31 nREPL interrupt stops the running eval and no other.

Spec: spec/Nrepl.tla -- the reader sets the session's flag on `interrupt` and
`close`; the worker clears it when it dequeues a request (WorkerResetFlag);
the evaluator tests-and-clears it at the top of every step.  TLC checks
InterruptedOnlyIfAsked (an eval only ends `interrupted` if an interrupt/close
was handled after its flag reset) on every interleaving, and the liveness
InterruptStops (handled while running ~> the eval stops).  Binding: trace
validation of interrupt-heavy scenarios (shared with C30), plus three timed
sub-checks on the real server: an interrupt acknowledged while the session is
idle does not cancel the next eval; an interrupt sent while a loop is running
ends it `interrupted` within 2 s; `close` ends a running loop."""
import time

from common import Check, ToolError, pmap
import nrepl_client as nc
from props import c30


def ids(events, rid):
    return [m for k, m in events if k == "recv" and nc.text(m.get("id", b"")) == rid]


def status_of(events, rid):
    for m in ids(events, rid):
        if "status" in m:
            return sorted(nc.text(s) for s in m["status"])
    return None


def timed(case, seed):
    srv = nc.Server(sched_seed=(seed if seed % 2 else None), max_ms=20)
    try:
        base = [(0, {"op": "clone", "id": "c1"}), (0.5, {"op": "eval", "id": "w1", "session": "garden-1", "code": "1"})]
        if case == "idle":
            steps = base + [(0.4, {"op": "interrupt", "id": "i1", "session": "garden-1"}),
                            (0.4, {"op": "eval", "id": "e1", "session": "garden-1", "code": 'print("z") 5'})]
            ev, _ = nc.run_scenario(srv, steps, quiet_s=1.0)
            st = status_of(ev, "e1")
            return st == ["done"], f"eval after an idle interrupt ended with status {st}"
        if case == "idle-load":
            # the request after the idle interrupt is a load-file: every kind of request starts with a clean flag
            steps = base + [(0.4, {"op": "interrupt", "id": "i1", "session": "garden-1"}),
                            (0.4, {"op": "load-file", "id": "e1", "session": "garden-1", "file": 'print("z") 5', "file-path": "/tmp/verif_c31_load.gdn"})]
            ev, _ = nc.run_scenario(srv, steps, quiet_s=1.0)
            st = status_of(ev, "e1")
            return st == ["done"], f"load-file after an idle interrupt ended with status {st}"
        loop = 'let i = 0 while True { i += 1 }'
        if case == "running":
            steps = base + [(0.3, {"op": "eval", "id": "e1", "session": "garden-1", "code": loop}),
                            (0.6, {"op": "interrupt", "id": "i1", "session": "garden-1"})]
        else:
            steps = base + [(0.3, {"op": "eval", "id": "e1", "session": "garden-1", "code": loop}),
                            (0.6, {"op": "close", "id": "k1", "session": "garden-1"})]
        t0 = time.time()
        ev, _ = nc.run_scenario(srv, steps, quiet_s=2.5, max_s=25.0, tail_s=20.0)
        st = status_of(ev, "e1")
        return st == ["done", "interrupted"], f"loop after {case} ended with status {st} ({time.time() - t0:.1f}s)"
    finally:
        srv.stop()


def run(tier, seed):
    # trace validation part (interrupt focus)
    rc = c30.run_focus("C31", "interrupt", tier, seed,
                       "plus timed sub-checks: idle interrupt is harmless, an interrupt / close during a running loop ends it `interrupted` within 2 s")
    if rc != 0:
        return rc
    # timed sub-checks, evidence is appended by a second Check object? keep simple: fail fast here
    jobs = [(c, seed * 7 + k) for k in range(3 if tier == "quick" else 12) for c in ("idle", "idle-load", "running", "close")]
    res = pmap(lambda j: timed(*j), jobs, workers=4)
    bad = [(j, msg) for j, (ok, msg) in zip(jobs, res) if not ok]
    if bad:
        import json, os
        from common import REPLAYS
        os.makedirs(os.path.join(REPLAYS, "C31"), exist_ok=True)
        path = os.path.join(REPLAYS, "C31", "timed.json")
        with open(path, "w") as f:
            json.dump({"property": "C31", "key": "C31 timed " + bad[0][0][0], "what": bad[0][1], "replay": {"case": bad[0][0][0], "seed": bad[0][0][1]}}, f)
        print(f"VIOLATION property=C31 replay={path}")
        print("  " + bad[0][1])
        return 1
    return 0


def replay(rec):
    r = rec["replay"]
    if "case" in r:
        ok, msg = timed(r["case"], r["seed"])
        print(msg)
        return 0 if ok else 1
    return c30.replay(rec)
