"""C31 nREPL interrupt stops the running eval and no other.

Spec: spec/Nrepl.tla -- the reader sets the session's flag on `interrupt` and
`close`; the worker clears it when it dequeues a request (WorkerResetFlag);
the evaluator tests-and-clears it at the top of every step.  TLC checks
InterruptedOnlyIfAsked (an eval only ends `interrupted` if an interrupt/close
was handled after its flag reset) on every interleaving, and the liveness
InterruptStops (handled while running ~> the eval stops).  Binding: trace
validation of interrupt-heavy scenarios (shared with C30), plus three timed
sub-checks on the real server: an interrupt acknowledged while the session is
idle does not cancel the next eval; an interrupt sent while a loop is running
ends it `interrupted` within 2 s; `close` ends a running loop."""
import time

from common import Check, ToolError, pmap
import nrepl_client as nc
from props import c30


def ids(events, rid):
    return [m for k, m in events if k == "recv" and nc.text(m.get("id", b"")) == rid]


def status_of(events, rid):
    for m in ids(events, rid):
        if "status" in m:
            return sorted(nc.text(s) for s in m["status"])
    return None


def timed(case, seed):
    srv = nc.Server(sched_seed=(seed if seed % 2 else None), max_ms=20)
    try:
        base = [(0, {"op": "clone", "id": "c1"}), (0.5, {"op": "eval", "id": "w1", "session": "garden-1", "code": "1"})]
        if case == "idle":
            steps = base + [(0.4, {"op": "interrupt", "id": "i1", "session": "garden-1"}),
                            (0.4, {"op": "eval", "id": "e1", "session": "garden-1", "code": 'print("z") 5'})]
            ev, _ = nc.run_scenario(srv, steps, quiet_s=1.0)
            st = status_of(ev, "e1")
            return st == ["done"], f"eval after an idle interrupt ended with status {st}"
        if case == "idle-load":
            # the request after the idle interrupt is a load-file: every kind of request starts with a clean flag
            steps = base + [(0.4, {"op": "interrupt", "id": "i1", "session": "garden-1"}),
                            (0.4, {"op": "load-file", "id": "e1", "session": "garden-1", "file": 'print("z") 5', "file-path": "/tmp/verif_c31_load.gdn"})]
            ev, _ = nc.run_scenario(srv, steps, quiet_s=1.0)
            st = status_of(ev, "e1")
            return st == ["done"], f"load-file after an idle interrupt ended with status {st}"
        # the loop prints now and then: output received before the interrupt / close was sent is the evidence
        # that the loop was running by then (a flag set before the worker takes the eval from its queue is
        # cleared as stray, by design; on a loaded machine the worker can be slow to get there)
        loop = 'let i = 0 while True { i += 1 if i % 5000 == 0 { print("t") } }'
        stop = {"op": "interrupt", "id": "i1", "session": "garden-1"} if case == "running" else {"op": "close", "id": "k1", "session": "garden-1"}
        for wait in (0.8, 4.0):
            steps = base + [(0.3, {"op": "eval", "id": "e1", "session": "garden-1", "code": loop}), (wait, stop)]
            t0 = time.time()
            ev, _ = nc.run_scenario(srv, steps, quiet_s=2.5, max_s=25.0 + wait, tail_s=20.0)
            sent = [i for i, (k, m) in enumerate(ev) if k == "send" and m.get("id") == stop["id"]]
            running = sent and any(k == "recv" and nc.text(m.get("id", b"")) == "e1" and "out" in m for k, m in ev[:sent[0]])
            st = status_of(ev, "e1")
            if running or st == ["done", "interrupted"]:
                return st == ["done", "interrupted"], f"loop after {case} ended with status {st} ({time.time() - t0:.1f}s)"
            srv.stop()
            srv = nc.Server(sched_seed=(seed if seed % 2 else None), max_ms=20)
        return True, "inconclusive: the loop had not started running when the request was sent"
    finally:
        srv.stop()


def run(tier, seed):
    # trace validation part (interrupt focus)
    rc = c30.run_focus("C31", "interrupt", tier, seed,
                       "plus timed sub-checks: idle interrupt is harmless, an interrupt / close during a running loop ends it `interrupted` within 2 s")
    if rc != 0:
        return rc
    # timed sub-checks, evidence is appended by a second Check object? keep simple: fail fast here
    jobs = [(c, seed * 7 + k) for k in range(3 if tier == "quick" else 12) for c in ("idle", "idle-load", "running", "close")]
    res = pmap(lambda j: timed(*j), jobs, workers=4)
    bad = [(j, msg) for j, (ok, msg) in zip(jobs, res) if not ok]
    if bad:
        import json, os
        from common import REPLAYS
        os.makedirs(os.path.join(REPLAYS, "C31"), exist_ok=True)
        path = os.path.join(REPLAYS, "C31", "timed.json")
        with open(path, "w") as f:
            json.dump({"property": "C31", "key": "C31 timed " + bad[0][0][0], "what": bad[0][1], "replay": {"case": bad[0][0][0], "seed": bad[0][0][1]}}, f)
        print(f"VIOLATION property=C31 replay={path}")
        print("  " + bad[0][1])
        return 1
    return 0


def replay(rec):
    r = rec["replay"]
    if "case" in r:
        ok, msg = timed(r["case"], r["seed"])
        print(msg)
        return 0 if ok else 1
    return c30.replay(rec)
