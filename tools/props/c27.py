"""C27 Eval-up-to reports the value the expression takes when run.

Spec: spec/Ref.tla with a `watch` node -- transparent for evaluation, it
records in the state (field w) what the wrapped expression evaluated to the
first time an evaluation of it completed.  TLC evaluates the reference on
generated programs in which one seeded sub-expression of the top level is
wrapped; Run reports `watch` (the first value, or "-" when the program ended
or failed before the expression was evaluated).

Binding (spec -> implementation): the same program, its top level put in one
top-level block (or one `test`), goes to a real JSON session: definitions by a
`run` request, then `eval_up_to` at an offset whose innermost expression is the
watched node.  The answer must be the value Ref recorded; it may be an error
only if Ref says the program fails before the expression is reached."""
import copy
import random

from common import Check, ToolError, pmap, vacuity
import gen_prog
import refrun
from session import run_session, split_by_request, project

PATH = "/tmp/verif_c27.gdn"
VALUE_KINDS = ("int", "str", "bool", "var", "paren", "bin", "list", "tuple", "ctor", "call", "mcall", "dot", "slit", "dlit")


def candidates(main):
    """Expression nodes of the top level that can be watched, with their parents' kinds."""
    out = []

    def visit(n, parent, role):
        if isinstance(n, dict):
            if "k" in n:
                k = n["k"]
                if k in VALUE_KINDS and not (k == "var" and role == "f") and not (k == "ctor" and not n.get("args")):
                    out.append(n)
                elif k == "if" and not n.get("inline") and role in ("main", "t", "f", "b"):
                    out.append(n)           # an if statement: its value is Unit without else, the branch's value with
                for key, v in n.items():
                    visit(v, n, key)
            else:
                for key, v in n.items():
                    visit(v, parent, key)
        elif isinstance(n, list):
            for x in n:
                visit(x, parent, role)
    for s in main:
        visit(s, None, "main")
    return out


def has_toplevel_return(main):
    found = []

    def visit(n):
        if isinstance(n, dict):
            if n.get("k") == "lam":
                return
            if n.get("k") == "ret":
                found.append(1)
            for v in n.values():
                visit(v)
        elif isinstance(n, list):
            for x in n:
                visit(x)
    visit(main)
    return bool(found)


def probe_offset(t):
    """An offset whose innermost expression is the rendered node t."""
    k = t["k"]
    if k in ("int", "str", "bool", "var", "list", "tuple", "paren", "if", "dlit"):
        return t["start"]
    if k == "bin":
        return t["l"]["end"] + 1          # the operator
    if k == "call":
        return t["f"]["end"]              # the opening parenthesis
    if k == "mcall":
        return t["recv"]["end"]           # the dot
    if k == "ctor":
        return t["start"] + len(t["n"])   # the opening parenthesis of the payload
    if k == "dot":
        return t["e"]["end"]              # the dot
    if k == "slit":
        return t["start"] + len(t["n"])   # the opening brace
    raise ValueError(k)


def render_case(prog, form):
    """Definitions, then the whole top level as ONE item (a block or a test).
    -> (definitions text, full text); start/end offsets are filled in the tree."""
    w = gen_prog.Writer()
    if prog.get("uses_enum"):
        w.w("enum E1 { A1, B1(Int), C1 }\n")
    if prog.get("uses_struct"):
        w.w("struct P1 { x: Int, y: String }\n")
    gen_prog.render_meths(w, prog)
    for f in prog["funs"]:
        f["line"] = w.line
        params = ", ".join(f"{p}: {t}" for p, t in zip(f["ps"], f["pt"]))
        w.w(f"fun {f['n']}({params})" + (f": {f['rt']}" if f["rt"] else "") + " {\n")
        gen_prog.render_block(w, f["b"], 1)
        w.w("}\n")
    defs = w.text()
    w.w("{\n" if form == "block" else "test watched {\n")
    gen_prog.render_block(w, prog["main"], 1)
    w.w("}\n")
    return defs, w.text()


def run(tier, seed):
    ck = Check("C27", "model_checking", tier, seed)
    rnd = random.Random(seed * 271 + 27)
    n = 150 if tier == "quick" else 1500
    progs, _ = refrun.gen_programs(seed + 127, n, 5, err_rate=0.15, features={"session_safe": True, "ext": True, "ext2": "half"})
    cases = []
    for p in progs:
        if has_toplevel_return(p["main"]):
            continue
        for rep in range(2 if tier == "quick" else 4):
            q = copy.deepcopy(p)
            cands = candidates(q["main"])
            if not cands:
                continue
            t = rnd.choice(cands)
            inner = dict(t)
            t.clear()
            t.update({"k": "watch", "e": inner, "line": inner.get("line", 0), "id": inner.get("id", 0)})
            q["id"] = len(cases)
            form = "block" if rnd.random() < 0.7 else "test"
            defs, full = render_case(q, form)
            cases.append({"prog": q, "defs": defs, "src": full, "offset": probe_offset(inner), "kind": inner["k"], "form": form,
                          "text": full.encode()[inner["start"]:inner["end"]].decode()})
    vacuity(len(cases) > 100, f"watch cases generated ({len(cases)})")
    tres, exp = refrun.ref_expect([c["prog"] for c in cases])
    ck.add_tlc(tres)

    def real(c):
        reqs = []
        if c["defs"].strip():
            reqs.append({"method": "run", "input": c["defs"], "path": PATH})
        reqs.append({"method": "eval_up_to", "path": PATH, "src": c["src"], "offset": c["offset"]})
        rc, resps, err = run_session(reqs, timeout=60)
        groups, _ = split_by_request(resps)
        if rc != 0 or len(groups) != len(reqs):
            return {"rc": rc, "n": len(groups), "ans": None, "stderr": err[-300:]}
        return {"rc": rc, "ans": groups[-1][1]}
    results = pmap(real, cases)
    reached = unreached = failing = 0
    kinds = set()
    for c, r in zip(cases, results):
        e = exp[c["prog"]["id"]]
        if e["outcome"] in ("fuel", "big"):
            continue
        ck.evaluated()
        ck.validated()
        key = f"C27 {c['form']} {c['kind']} {c['text'][:40]!r} in {refrun.src_hash(c['src'])}"
        rep = {"src": c["src"], "defs": c["defs"], "offset": c["offset"], "expected": e, "real": r}
        if r["ans"] is None:
            ck.fail(key, f"session died or lost a response during eval-up-to: {r}", rep)
            continue
        ans = r["ans"]
        if e["watch"] != "-":
            reached += 1
            kinds.add(c["kind"])
            ck.nontrivial(c["src"] + str(c["offset"]))
            if len(ck.cov["samples"]) < 4 and c["kind"] in ("call", "bin", "mcall"):
                ck.sample({"program": c["src"], "offset": c["offset"], "expression": c["text"], "first_value": e["watch"]})
            if ans[0] != "value" or ans[1] != e["watch"]:
                got = ans[1] if ans[0] in ("value", "error") else ans
                ck.fail(key, f"eval-up-to at offset {c['offset']} (`{c['text'][:40]}`, {c['form']}) answers {got!r}; the first value of that expression when the program runs is {e['watch']!r}", rep)
        elif e["outcome"] in ("exception", "assert"):
            failing += 1
            if ans[0] != "error":
                ck.fail(key, f"the program fails before `{c['text'][:40]}` is evaluated, yet eval-up-to answers {ans[:2]}", rep)
        else:
            unreached += 1      # never evaluated in a successful run: the property does not say
    vacuity(reached > 60 and len(kinds) >= 6, f"watched expressions reached: {reached} of kinds {sorted(kinds)}; failing before: {failing}; never evaluated: {unreached}")
    ck.assumptions += ["targets are value expressions of the core language (literals, variables, operators, parentheses, lists, tuples, constructors, calls, method calls); let / assignment / loop positions have their own reporting rules and are not targeted",
                       "an expression that a successful run never evaluates is not judged (the property does not define it)",
                       "the top level is put in one block or one test, the unit eval-up-to evaluates"]
    return ck.finish(rule="seeded programs x seeded watched sub-expression (2 / 4 per program), top level as a block (70 %) or a test; non-trivial = cases where the reference reaches the expression",
                     extra={"reached": reached, "failing_before": failing, "never_evaluated": unreached, "kinds": sorted(kinds)})


def replay(rec):
    r = rec["replay"]
    reqs = []
    if r["defs"].strip():
        reqs.append({"method": "run", "input": r["defs"], "path": PATH})
    reqs.append({"method": "eval_up_to", "path": PATH, "src": r["src"], "offset": r["offset"]})
    rc, resps, err = run_session(reqs, timeout=60)
    groups, _ = split_by_request(resps)
    print(groups[-1][1] if groups else (rc, err[-300:]))
    e = r["expected"]
    if not groups:
        return 1
    ans = groups[-1][1]
    if e["watch"] != "-":
        return 0 if ans[0] == "value" and ans[1] == e["watch"] else 1
    return 0 if ans[0] == "error" else 1
