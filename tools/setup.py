#!/usr/bin/env python3
"""MANIFEST.setup_cmd: build /repo with hooks once and syntax-check every spec."""
import glob
import os
import subprocess
import sys

sys.path.insert(0, os.path.dirname(os.path.abspath(__file__)))
import common  # noqa: E402


def main():
    try:
        common.build()
    except common.ToolError as e:
        print("setup: build failed:", e)
        return 1
    bad = 0
    for path in sorted(glob.glob(os.path.join(common.SPEC, "*.tla"))):
        p = subprocess.run(["java", "-cp", "/opt/veriftools/tla/tla2tools.jar:/opt/veriftools/tla/CommunityModules-deps.jar",
                            "tla2sany.SANY", os.path.basename(path)], cwd=common.SPEC,
                           stdout=subprocess.PIPE, stderr=subprocess.STDOUT, text=True)
        if p.returncode != 0 or "*** Errors" in p.stdout or "Fatal errors" in p.stdout:
            print("SANY failed:", path)
            print(p.stdout[-1500:])
            bad += 1
    print(f"setup ok; {bad} spec(s) with errors")
    return 1 if bad else 0


if __name__ == "__main__":
    sys.exit(main())
