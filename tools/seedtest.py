#!/usr/bin/env python3
"""Development aid (not a registered check): apply a seeded change to a scratch
worktree of /repo (never to /repo itself), run the given checks at the quick
tier against that worktree (VERIF_REPO / VERIF_BUILD_DIR), report which of
them raise a VIOLATION, and remove the worktree.
   tools/seedtest.py <patch.diff> C05 C06 ..."""
import json
import os
import subprocess
import sys
import time

VERIF = os.path.dirname(os.path.dirname(os.path.abspath(__file__)))
SLOT = os.environ.get("SEED_SLOT", "")       # a second slot lets two seed tests run side by side
WT = "/tmp/wt/seed" + SLOT
BUILD = "/tmp/wt/seedbuild" + SLOT


def main():
    patch = os.path.abspath(sys.argv[1])
    checks = sys.argv[2:]
    subprocess.run(["git", "-C", "/repo", "worktree", "remove", "--force", WT], capture_output=True)
    a = subprocess.run(["git", "-C", "/repo", "worktree", "add", "--detach", WT, "HEAD"], capture_output=True, text=True)
    if a.returncode != 0:
        print("cannot create worktree:", a.stderr[-300:])
        return 2
    results = {}
    try:
        a = subprocess.run(["git", "-C", WT, "apply", patch], capture_output=True, text=True)
        if a.returncode != 0:
            a = subprocess.run(["git", "-C", WT, "apply", "--3way", patch], capture_output=True, text=True)
            if a.returncode != 0:
                print("patch does not apply:", a.stderr[-500:])
                return 2
        for c in checks:
            t0 = time.time()
            env = dict(os.environ)
            env["VERIF_EVIDENCE_DIR"] = os.path.join(BUILD, "seed-evidence")
            env["VERIF_REPO"] = WT
            env["VERIF_BUILD_DIR"] = BUILD
            p = subprocess.run([os.path.join(VERIF, "check"), c, "--tier", "quick"], cwd=VERIF, capture_output=True, text=True, env=env)
            viol = [l for l in p.stdout.split("\n") if l.startswith("VIOLATION")]
            first = ""
            lines = p.stdout.split("\n")
            for i, l in enumerate(lines):
                if l.startswith("VIOLATION") and i + 1 < len(lines):
                    first = lines[i + 1].strip()[:200]
                    break
            results[c] = {"exit": p.returncode, "violations": len(viol), "first": first, "wall_s": round(time.time() - t0, 1),
                          "tool_error": (p.stderr.strip().split("\n")[-1][:200] if p.returncode == 2 else "")}
            print(c, results[c], flush=True)
    finally:
        subprocess.run(["git", "-C", "/repo", "worktree", "remove", "--force", WT], capture_output=True)
    print(json.dumps(results))
    return 0


if __name__ == "__main__":
    sys.exit(main())
