"""Parse Rust `{:#?}` output of garden's AST (as printed by `reftest-ast` and
the verif-batch `ast` mode) and reduce it to a canonical S-expression: the
abstract syntax with positions, ids, punctuation positions and doc comments
removed.  spec/Syntax.tla's Sexp operator produces the same form."""
import re

DROP_FIELDS = {"position", "id", "value_is_used", "open_paren", "close_paren", "open_brace", "close_brace",
               "comma", "pos", "doc_comment", "item_id", "interned_id", "name_sym_opt"}
UNWRAP = {"Expression": "expr_", "ExpressionWithComma": "expr", "ParenthesizedExpression": "expr", "Block": "exprs",
          "ParenthesizedArguments": "arguments", "ExpressionWithComma2": "expr", "ParenthesizedParameters": "params"}

_TOKEN = re.compile(r'\s*(?:(Symbol|TypeSymbol)"((?:[^"\\]|\\.)*)"|"((?:[^"\\]|\\.)*)"|([A-Za-z_][A-Za-z0-9_]*)|(-?[0-9][0-9_.eE+-]*)|(.))', re.S)


def tokenize(s):
    pos = 0
    out = []
    n = len(s)
    while pos < n:
        m = _TOKEN.match(s, pos)
        if not m:
            break
        pos = m.end()
        if m.group(1):
            out.append(("sym", m.group(2)))
        elif m.group(3) is not None:
            out.append(("str", m.group(3)))
        elif m.group(4):
            out.append(("id", m.group(4)))
        elif m.group(5):
            out.append(("num", m.group(5)))
        elif m.group(6) and not m.group(6).isspace():
            out.append(("p", m.group(6)))
    return out


class P:
    def __init__(self, toks):
        self.t = toks
        self.i = 0

    def peek(self):
        return self.t[self.i] if self.i < len(self.t) else ("eof", "")

    def next(self):
        x = self.peek()
        self.i += 1
        return x

    def expect(self, ch):
        x = self.next()
        if x != ("p", ch):
            raise ValueError(f"expected {ch!r} got {x!r} at token {self.i}")

    def value(self):
        k, v = self.next()
        if k == "sym":
            return ("atom", v)
        if k == "str":
            return ("string", v)
        if k == "num":
            return ("atom", v)
        if k == "p" and v == "[":
            items = []
            while self.peek() != ("p", "]"):
                items.append(self.value())
                if self.peek() == ("p", ","):
                    self.next()
            self.expect("]")
            return ("list", items)
        if k == "p" and v == "(":
            # bare tuple
            items = []
            while self.peek() != ("p", ")"):
                items.append(self.value())
                if self.peek() == ("p", ","):
                    self.next()
            self.expect(")")
            return ("node", "Tuple", [(None, x) for x in items])
        if k == "id":
            name = v
            nk, nv = self.peek()
            if (nk, nv) == ("p", "("):
                self.next()
                items = []
                while self.peek() != ("p", ")"):
                    items.append((None, self.value()))
                    if self.peek() == ("p", ","):
                        self.next()
                self.expect(")")
                return ("node", name, items)
            if (nk, nv) == ("p", "{"):
                self.next()
                fields = []
                while self.peek() != ("p", "}"):
                    fk, fname = self.next()
                    if (fk, fname) == ("p", "."):
                        # `Position { ... }`
                        while self.peek() != ("p", "}"):
                            self.next()
                        break
                    self.expect(":")
                    fields.append((fname, self.value()))
                    if self.peek() == ("p", ","):
                        self.next()
                self.expect("}")
                return ("node", name, fields)
            return ("atom", name)
        raise ValueError(f"unexpected token {k} {v!r} at {self.i}")


def parse_all(text):
    p = P(tokenize(text))
    out = []
    while p.peek()[0] != "eof":
        out.append(p.value())
    return out


def canon(v):
    k = v[0]
    if k == "atom":
        return v[1]
    if k == "string":
        return '"' + v[1] + '"'
    if k == "list":
        return "[" + " ".join(canon(x) for x in v[1]) + "]"
    name, fields = v[1], v[2]
    if name == "Position":
        return None
    if name == "Some" and len(fields) == 1:
        return canon(fields[0][1])
    if name in UNWRAP:
        for fname, fv in fields:
            if fname == UNWRAP[name]:
                return canon(fv)
    parts = []
    for fname, fv in fields:
        if fname in DROP_FIELDS:
            continue
        c = canon(fv)
        if c is None:
            continue
        parts.append(c)
    if not parts:
        return "(" + name + ")" if fields else name
    return "(" + name + " " + " ".join(parts) + ")"


def sexps(dump):
    """Canonical S-expression of every top-level item of an AST dump."""
    return [canon(v) for v in parse_all(dump)]


if __name__ == "__main__":
    import sys
    for s in sexps(sys.stdin.read()):
        print(s)
