#!/usr/bin/env python3
"""Writes seeded/<id>/meta.json for every entry of seeded/index.json (the
index is the single source; meta.json is what travels with each change)."""
import json
import os
import re

VERIF = os.path.dirname(os.path.dirname(os.path.abspath(__file__)))


def main():
    idx = json.load(open(os.path.join(VERIF, "seeded", "index.json")))
    for sid, e in idx.items():
        d = os.path.join(VERIF, "seeded", sid)
        if not os.path.isdir(d):
            continue
        patch = open(os.path.join(d, "patch.diff")).read() if os.path.exists(os.path.join(d, "patch.diff")) else ""
        files = sorted(set(re.findall(r"^\+\+\+ b/(\S+)", patch, re.M)))
        meta = {"id": sid, "property": e.get("property"), "summary": e.get("summary"), "needs": e.get("needs"),
                "files": files, "patch": "patch.diff",
                "demonstration": sorted(f for f in os.listdir(d) if f not in ("patch.diff", "meta.json")),
                "compiles_and_passes_existing_tests": e.get("suite", "confirmed in a scratch worktree (109 tests)"),
                "origin": e.get("origin", "written by a fresh sub-agent that saw only the property text and a scratch worktree"),
                "caught_by": e.get("caught_by", []), "missed_by": e.get("missed_by", []),
                "apply": "git -C /repo apply /verif/seeded/%s/patch.diff ; undo with git -C /repo checkout -- ." % sid}
        with open(os.path.join(d, "meta.json"), "w") as f:
            json.dump(meta, f, indent=1)
    print(len(idx), "entries")


if __name__ == "__main__":
    main()
