"""Shared: evaluate Ref.tla on generated programs with TLC and compare with
the real interpreter."""
import hashlib
import os
import shutil

from common import (ToolError, batch, log, scratch_dir, tlc, tlc_ok, write_ndjson)
import gen_prog


def gen_programs(seed, n, size, err_rate=0.25, base=0, features=None):
    progs, srcs = [], {}
    for i in range(n):
        # a feature given as "half" is on for every second program
        f = {k: ((base + i) % 2 == 1 if v == "half" else v) for k, v in (features or {}).items()}
        p, src = gen_prog.generate(seed * 1000003 + base + i, base + i, size=size, err_rate=err_rate, features=f)
        progs.append(p)
        srcs[base + i] = src
    return progs, srcs


def ref_expect(progs, workers=8, timeout=900):
    """Evaluate spec/Ref.tla on the programs; returns (TlcResult, {id: expect})."""
    d = scratch_dir("ref")
    try:
        path = os.path.join(d, "progs.ndjson")
        write_ndjson(path, progs)
        res = tlc("EvalRef", env={"PROGS": path}, workers=workers, timeout=timeout)
        tlc_ok(res, "EvalRef")
        exp = {e["id"]: e for e in res.tag("EXPECT")}
        if len(exp) != len(progs):
            raise ToolError(f"EvalRef produced {len(exp)} results for {len(progs)} programs")
        return res, exp
    finally:
        shutil.rmtree(d, ignore_errors=True)


def observe(real):
    """Project a verif-batch `run` result to the observable record."""
    o = {"outcome": real.get("outcome"), "out": real.get("stdout"), "line": None}
    if real.get("pos"):
        o["line"] = real["pos"]["line"] + 1
    return o


def agrees(exp, real):
    """Observable agreement between the reference result and the real run:
    printed output, outcome variant, and the line of the failing statement."""
    if real.get("outcome") in ("panic", "died"):
        return False
    if exp["outcome"] != real.get("outcome"):
        return False
    if exp["out"] != real.get("stdout"):
        return False
    if exp["outcome"] in ("exception", "assert"):
        if real.get("pos", {}).get("line", -9) + 1 != exp["line"]:
            return False
    return True


def src_hash(src):
    return hashlib.sha1(src.encode()).hexdigest()[:10]
