"""Shared machinery of the front-end checks (C01 crash freedom, C23 position
consistency): texts enumerated by spec/MC_Lexer.tla, the concrete character
of every class, token-sequence and grammar-mutation families, and the
comparison of the real lexer (hook `verif-batch frontend`) with Lexer.tla."""
import glob
import os
import random

from common import REPO, SPEC, ToolError, batch, scratch_dir, tlc, tlc_ok, write_ndjson
import shutil

CHARS = {"sp": " ", "nl": "\n", "cr": "\r", "nbsp": "\u00a0", "a": "a", "us": "_", "d": "1", "minus": "-", "dot": ".",
         "plus": "+", "eq": "=", "star": "*", "slash": "/", "quote": '"', "bslash": "\\", "lparen": "(", "hash": "#",
         "e2": "é", "e3": "€", "e4": "\U0001F600"}
CLASSES = list(CHARS)

VOCAB = ["let", "fun", "if", "else", "while", "for", "in", "match", "return", "break", "continue", "struct", "enum", "test",
         "import", "method", "external", "public", "shared", "assert", "try", "catch", "throw", "as", "x", "y", "Foo", "None",
         "Some", "True", "1", "2.5", '"s"', "(", ")", "{", "}", "[", "]", ",", ".", ":", "::", "=>", "=", "+", "-", "*", "<",
         ">", "==", "+=", "&&", "_", "//c\n", "\n", "é", '"']


def text_of(classes):
    return "".join(CHARS[c] for c in classes)


def mc_lexer(mode, maxlen, env=None, timeout=3000, heap="8g"):
    name = f"MC_Lexer_{mode}_{os.getpid()}.cfg"
    with open(os.path.join(SPEC, name), "w") as f:
        f.write(f'CONSTANTS\n  Mode = "{mode}"\n  MaxLen = {maxlen}\nINIT Init\nNEXT Next\nINVARIANT Laws\nINVARIANT Emit\nCHECK_DEADLOCK FALSE\n')
    try:
        res = tlc("MC_Lexer", cfg=name, env=env, workers=8, timeout=timeout, heap=heap)
    finally:
        os.remove(os.path.join(SPEC, name))
    tlc_ok(res, f"MC_Lexer mode={mode}")
    return res


def random_class_texts(rnd, n, lo=5, hi=40):
    """Longer texts than TLC can enumerate, biased towards the interesting
    neighbourhoods (strings with newlines and escapes, comments, numbers)."""
    out = []
    frag = [["quote", "a", "nl", "a", "quote"], ["quote", "bslash", "quote", "a", "quote"], ["slash", "slash", "a", "nl"],
            ["minus", "d", "us", "dot", "d"], ["quote", "e3", "nl", "nl", "e4", "quote"], ["hash", "a", "nl"],
            ["quote", "a", "bslash", "nl", "quote"], ["d", "dot", "dot", "d"], ["quote", "a", "nl"], ["a", "e2", "a"]]
    for _ in range(n):
        t = []
        ln = rnd.randint(lo, hi)
        while len(t) < ln:
            if rnd.random() < 0.35:
                t += rnd.choice(frag)
            else:
                t.append(rnd.choice(CLASSES))
        out.append(t)
    return out


def lex_model(tier, seed):
    """-> (tlc results, [model item]) : every text of length <= N plus seeded
    longer ones, each with the tokens / comments / errors / position table of
    Lexer.tla."""
    n = 3 if tier == "quick" else 4
    r1 = mc_lexer("all", n)
    items = list(r1.tag("LEX"))
    rnd = random.Random(seed * 7919 + 5)
    texts = random_class_texts(rnd, 400 if tier == "quick" else 6000)
    d = scratch_dir("lexfile")
    try:
        p = os.path.join(d, "texts.ndjson")
        write_ndjson(p, [{"src": t} for t in texts])
        r2 = mc_lexer("file", 0, env={"TEXTS": p})
    finally:
        shutil.rmtree(d, ignore_errors=True)
    got = list(r2.tag("LEX"))
    if len(got) != len({tuple(t) for t in texts}):
        raise ToolError(f"MC_Lexer file mode printed {len(got)} items for {len(texts)} texts")
    return [r1, r2], items + got


def pos_of(table, k):
    return table[k - 1]


def expected_position(table, s, e):
    a, b = pos_of(table, s), pos_of(table, e)
    return {"start": a["off"], "end": b["off"], "line": a["line"], "col": a["col"], "end_line": b["line"], "end_col": b["col"]}


SPAN = ("start", "end")
FULL = ("start", "end", "line", "col", "end_line", "end_col")


def compare_lexer(item, real, fields):
    """Differences between the real lexer's output and the model's, looking
    only at `fields` of each position.  -> list of strings."""
    table = item["table"]
    src = text_of(item["src"])
    raw = src.encode()
    out = []
    toks = real.get("tokens")
    if toks is None:
        return ["no tokens in answer"]
    if len(toks) != len(item["toks"]):
        return [f"{len(toks)} tokens, the model has {len(item['toks'])}: real {[t['text'] for t in toks]}"]
    comments = []
    for k, (t, m) in enumerate(zip(toks, item["toks"])):
        exp = expected_position(table, m["s"], m["e"])
        for f in fields:
            if t[f] != exp[f]:
                out.append(f"token {k} {t['text']!r} ({m['kind']}): {f}={t[f]} expected {exp[f]}")
        if t["text"] != raw[exp["start"]:exp["end"]].decode("utf-8", "replace"):
            out.append(f"token {k}: text {t['text']!r} is not the source between its offsets")
        for c in t["comments"]:
            comments.append((c, k + 1))
    for c in real.get("trailing_comments", []):
        comments.append((c, len(toks) + 1))
    if len(comments) != len(item["coms"]):
        out.append(f"{len(comments)} comments, the model has {len(item['coms'])}")
    else:
        for (c, before), m in zip(comments, item["coms"]):
            exp = expected_position(table, m["s"], m["e"])
            if before != m["before"]:
                out.append(f"comment {c['text']!r} attached before token {before}, expected {m['before']}")
            for f in fields:
                if c[f] != exp[f]:
                    out.append(f"comment {c['text']!r}: {f}={c[f]} expected {exp[f]}")
    errs = real.get("lex_errors", [])
    if len(errs) != len(item["errs"]):
        out.append(f"{len(errs)} lexer errors, the model has {len(item['errs'])}: {[e['message'] for e in errs]}")
    else:
        for e, m in zip(errs, item["errs"]):
            exp = expected_position(table, m["s"], m["e"])
            if not e["message"].startswith("Unclosed string" if m["kind"] == "unclosed" else "Unrecognized syntax"):
                out.append(f"error {e['message']!r} where the model has {m['kind']}")
            for f in fields:
                if e["pos"][f] != exp[f]:
                    out.append(f"error {e['message']!r}: {f}={e['pos'][f]} expected {exp[f]}")
    return out


def stage_crashes(r):
    """-> list of (stage, message) for every stage of a frontend answer that
    did not finish."""
    out = []
    if r.get("outcome") in ("died", "timeout", "panic"):
        out.append((r["outcome"], (r.get("panic") or r.get("stderr_tail") or "")[-200:]))
        return out
    for st in ("lex", "parse", "check", "format"):
        if r.get(st) == "panic":
            out.append((st, r.get(st + "_panic", "")))
    return out


# ---- families beyond the lexer alphabet ---------------------------------------------------------

def corpus():
    """The repository's own Garden sources: test inputs and the prelude."""
    files = sorted(glob.glob(REPO + "/src/test_files/**/*.gdn", recursive=True)) + sorted(glob.glob(REPO + "/src/*.gdn"))
    out = []
    for f in files:
        try:
            s = open(f, encoding="utf-8").read()
        except (OSError, UnicodeDecodeError):
            continue
        if len(s) < 3000:
            out.append((os.path.relpath(f, REPO), s))
    return out


def split_tokens(src, toks):
    """Token texts with the whitespace that preceded them, from the real
    lexer's offsets (comments stay inside the gaps)."""
    raw = src.encode()
    parts = []
    last = 0
    for t in toks:
        parts.append((raw[last:t["start"]].decode("utf-8", "replace"), raw[t["start"]:t["end"]].decode("utf-8", "replace")))
        last = t["end"]
    return parts, raw[last:].decode("utf-8", "replace")


def mutations(rnd, src, toks, budget):
    """Grammar mutations of one program: every token-boundary truncation
    (unterminated constructs), plus seeded deletions, duplications, swaps,
    replacements and insertions."""
    parts, tail = split_tokens(src, toks)
    n = len(parts)
    out = []

    def join(ps):
        return "".join(g + t for g, t in ps)

    cuts = list(range(1, n))
    rnd.shuffle(cuts)
    for k in cuts[:budget]:
        out.append(("truncate", join(parts[:k])))
        out.append(("truncate-nl", join(parts[:k]) + "\n"))
    for _ in range(budget):
        if n < 2:
            break
        k = rnd.randrange(n)
        kind = rnd.choice(["delete", "dup", "swap", "replace", "insert", "splice"])
        ps = list(parts)
        if kind == "delete":
            del ps[k]
        elif kind == "dup":
            ps.insert(k, ps[k])
        elif kind == "swap" and k + 1 < n:
            ps[k], ps[k + 1] = (ps[k][0], ps[k + 1][1]), (ps[k + 1][0], ps[k][1])
        elif kind == "replace":
            ps[k] = (ps[k][0], rnd.choice(VOCAB))
        elif kind == "insert":
            ps.insert(k, (" ", rnd.choice(VOCAB)))
        else:
            j = rnd.randrange(n)
            lo, hi = min(j, k), max(j, k)
            ps = ps[:lo] + ps[hi:]
        out.append((kind, join(ps) + tail))
    return out
