"""Minimal LSP client over stdio (Content-Length framing) for `garden lsp`, and
an LSP-conformant edit applier (ranges in UTF-16 columns)."""
import json
import os
import select
import shutil
import subprocess
import time

from common import GARDEN, limited, scratch_dir


class Lsp:
    def __init__(self):
        self.dir = scratch_dir("lsp")
        env = dict(os.environ)
        env["GARDEN_LOG"] = "error"
        self.proc = subprocess.Popen(limited([GARDEN, "lsp"]), cwd=self.dir, env=env, stdin=subprocess.PIPE,
                                     stdout=subprocess.PIPE, stderr=subprocess.PIPE)
        self.buf = b""
        self.log = []          # ("send", msg) / ("recv", msg) in client order

    def send(self, msg, raw=None):
        body = raw if raw is not None else json.dumps(msg).encode()
        self.log.append(("send", msg if raw is None else {"raw": raw.decode("utf-8", "replace")}))
        try:
            self.proc.stdin.write(b"Content-Length: %d\r\n\r\n%s" % (len(body), body))
            self.proc.stdin.flush()
            return True
        except (BrokenPipeError, OSError):
            return False

    def _parse(self):
        out = []
        while True:
            i = self.buf.find(b"\r\n\r\n")
            if i < 0:
                break
            head = self.buf[:i].decode("ascii", "replace")
            n = None
            for line in head.split("\r\n"):
                if line.lower().startswith("content-length:"):
                    n = int(line.split(":")[1].strip())
            if n is None or len(self.buf) < i + 4 + n:
                break
            body = self.buf[i + 4:i + 4 + n]
            self.buf = self.buf[i + 4 + n:]
            try:
                out.append(json.loads(body))
            except ValueError:
                out.append({"unparsable": body.decode("utf-8", "replace")[:200]})
        return out

    def read(self, timeout=2.0, until=None):
        """Collect messages until `until(msg)` is true for one of them or the timeout passes."""
        got = []
        t0 = time.time()
        fd = self.proc.stdout.fileno()
        while time.time() - t0 < timeout:
            r, _, _ = select.select([fd], [], [], 0.05)
            if r:
                chunk = os.read(fd, 65536)
                if not chunk:
                    break
                self.buf += chunk
                for m in self._parse():
                    self.log.append(("recv", m))
                    got.append(m)
                    if until and until(m):
                        return got
            elif self.proc.poll() is not None:
                break
        return got

    def request(self, rid, method, params, timeout=5.0):
        self.send({"jsonrpc": "2.0", "id": rid, "method": method, "params": params})
        # a server that is still alive gets five more allowances before the request counts as unanswered:
        # on a loaded machine a slow answer must not be taken for a missing one
        for allowance in (timeout, timeout * 5):
            got = self.read(allowance, until=lambda m: m.get("id") == rid and "method" not in m)
            for m in got:
                if m.get("id") == rid and "method" not in m:
                    return m
            if not self.alive():
                break
        return None

    def notify(self, method, params):
        return self.send({"jsonrpc": "2.0", "method": method, "params": params})

    def alive(self):
        return self.proc.poll() is None

    def stop(self):
        try:
            self.proc.kill()
            self.proc.wait(timeout=5)
        except Exception:
            pass
        shutil.rmtree(self.dir, ignore_errors=True)


def utf16_col_to_index(line, col):
    """Index into the Python string `line` of UTF-16 column `col` (clamped)."""
    units = 0
    for i, ch in enumerate(line):
        if units >= col:
            return i
        units += 2 if ord(ch) > 0xFFFF else 1
    return len(line)


def pos_to_index(text, line, col):
    lines = text.split("\n")
    if line >= len(lines):
        return len(text)
    start = sum(len(l) + 1 for l in lines[:line])
    return start + utf16_col_to_index(lines[line], col)


def apply_edits(text, edits):
    """Apply LSP TextEdits (non-overlapping) as the specification defines."""
    spans = []
    for e in edits:
        s = pos_to_index(text, e["range"]["start"]["line"], e["range"]["start"]["character"])
        t = pos_to_index(text, e["range"]["end"]["line"], e["range"]["end"]["character"])
        spans.append((s, t, e["newText"]))
    spans.sort(key=lambda x: (x[0], x[1]))
    for (s1, t1, _), (s2, t2, _) in zip(spans, spans[1:]):
        if s2 < t1:
            raise ValueError("overlapping edits")
    out = text
    for s, t, new in reversed(spans):
        out = out[:s] + new + out[t:]
    return out
