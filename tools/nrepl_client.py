"""A minimal nREPL client for trace recording: bencode codec, server start-up,
and a single-threaded scenario runner that logs `send` / `recv` events in the
order the client performed / observed them (one thread, so the event order is
the client's real-time order)."""
import os
import select
import shutil
import socket
import subprocess
import time

from common import GARDEN, scratch_dir


def benc(x):
    if isinstance(x, int):
        return b"i%de" % x
    if isinstance(x, str):
        b = x.encode()
        return b"%d:%s" % (len(b), b)
    if isinstance(x, bytes):
        return b"%d:%s" % (len(x), x)
    if isinstance(x, list):
        return b"l" + b"".join(benc(i) for i in x) + b"e"
    if isinstance(x, dict):
        return b"d" + b"".join(benc(k) + benc(x[k]) for k in sorted(x)) + b"e"
    raise TypeError(x)


def bdec(buf, i=0):
    """Returns (value, next index) or raises IndexError / ValueError when incomplete."""
    c = buf[i:i + 1]
    if c == b"i":
        j = buf.index(b"e", i)
        return int(buf[i + 1:j]), j + 1
    if c == b"l":
        i += 1
        out = []
        while buf[i:i + 1] != b"e":
            if i >= len(buf):
                raise IndexError
            v, i = bdec(buf, i)
            out.append(v)
        return out, i + 1
    if c == b"d":
        i += 1
        out = {}
        while buf[i:i + 1] != b"e":
            if i >= len(buf):
                raise IndexError
            k, i = bdec(buf, i)
            v, i = bdec(buf, i)
            out[k.decode() if isinstance(k, bytes) else k] = v
        return out, i + 1
    if c.isdigit():
        j = buf.index(b":", i)
        n = int(buf[i:j])
        if j + 1 + n > len(buf):
            raise IndexError
        return buf[j + 1:j + 1 + n], j + 1 + n
    raise IndexError


def text(v):
    return v.decode("utf-8", "replace") if isinstance(v, bytes) else v


class Server:
    def __init__(self, sched_seed=None, max_ms=30):
        self.dir = scratch_dir("nrepl")
        env = dict(os.environ)
        if sched_seed is not None:
            env["GARDEN_VERIF_SCHED_SEED"] = str(sched_seed)
            env["GARDEN_VERIF_SCHED_MAX_MS"] = str(max_ms)
        env["GARDEN_LOG"] = "error"
        self.proc = subprocess.Popen([GARDEN, "nrepl", "--port", "0"], cwd=self.dir, env=env,
                                     stdin=subprocess.DEVNULL, stdout=subprocess.PIPE, stderr=subprocess.PIPE)
        port_file = os.path.join(self.dir, ".nrepl-port")
        t0 = time.time()
        self.port = None
        while time.time() - t0 < 20:
            if os.path.exists(port_file):
                s = open(port_file).read().strip()
                if s:
                    self.port = int(s)
                    break
            if self.proc.poll() is not None:
                break
            time.sleep(0.02)
        if self.port is None:
            self.stop()
            raise RuntimeError("nrepl server did not announce a port")

    def connect(self):
        s = socket.create_connection(("127.0.0.1", self.port), timeout=10)
        s.setblocking(False)
        return s

    def stop(self):
        try:
            self.proc.kill()
            self.proc.wait(timeout=5)
        except Exception:
            pass
        shutil.rmtree(self.dir, ignore_errors=True)


def run_scenario(server, steps, quiet_s=0.6, max_s=20.0, tail_s=12.0):
    """steps: list of (delay_seconds_before_send, request dict).  Returns the
    event list [("send", request) | ("recv", message dict)] in client order and
    whether the connection ended by itself."""
    sock = server.connect()
    events = []
    buf = b""
    t_next = time.time()
    idx = 0
    last_activity = time.time()
    t0 = time.time()
    closed = False
    try:
        while True:
            now = time.time()
            if idx < len(steps) and now >= t_next + steps[idx][0]:
                req = steps[idx][1]
                events.append(("send", req))
                sock.setblocking(True)
                sock.sendall(benc(req))
                sock.setblocking(False)
                idx += 1
                t_next = time.time()
                last_activity = t_next
                continue
            wait = 0.02
            if idx < len(steps):
                wait = max(0.0, min(0.02, t_next + steps[idx][0] - now))
            r, _, _ = select.select([sock], [], [], wait)
            if r:
                try:
                    chunk = sock.recv(65536)
                except BlockingIOError:
                    chunk = None
                if chunk == b"":
                    closed = True
                    break
                if chunk:
                    buf += chunk
                    last_activity = time.time()
                    while buf:
                        try:
                            v, j = bdec(buf, 0)
                        except (IndexError, ValueError):
                            break
                        buf = buf[j:]
                        events.append(("recv", v))
            if idx >= len(steps):
                # every request that was sent has had its final (status) message, and the line is quiet
                sent = {text(r.get("id", b"")) for k, r in events if k == "send"}
                final = {text(m.get("id", b"")) for k, m in events if k == "recv" and "status" in m}
                if sent <= final and time.time() - last_activity > quiet_s:
                    break
                if time.time() - last_activity > tail_s:
                    break
            if time.time() - t0 > max_s:
                break
    finally:
        try:
            sock.close()
        except Exception:
            pass
    return events, closed
