#!/usr/bin/env python3
"""Development aid: run every claimed check at one tier, one after the other,
and print one line per check (exit status, wall time, first violation)."""
import json
import os
import subprocess
import sys
import time

VERIF = os.path.dirname(os.path.dirname(os.path.abspath(__file__)))


def main():
    tier = sys.argv[1] if len(sys.argv) > 1 else "quick"
    only = sys.argv[2:] 
    m = json.load(open(os.path.join(VERIF, "MANIFEST.json")))
    for c in m["checks"]:
        pid = c["property_id"]
        if only and pid not in only:
            continue
        t0 = time.time()
        p = subprocess.run([os.path.join(VERIF, "check"), pid, "--tier", tier], cwd=VERIF, capture_output=True, text=True)
        lines = p.stdout.split("\n")
        first = next((lines[i + 1].strip()[:160] for i, l in enumerate(lines) if l.startswith("VIOLATION") and i + 1 < len(lines)), "")
        ok = next((l for l in lines if l.startswith("OK ")), "")
        err = p.stderr.strip().split("\n")[-1][:160] if p.returncode == 2 else ""
        print(f"{pid} exit={p.returncode} wall={time.time() - t0:.0f}s {ok[:120]} {first} {err}", flush=True)


if __name__ == "__main__":
    main()
