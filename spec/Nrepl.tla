------------------------------- MODULE Nrepl -------------------------------
(* The nREPL server's per-connection protocol (anchors: src/nrepl.rs        *)
(* :326-366 output flusher, :370-503 eval and final drain, :731-811         *)
(* sessions and dispatch, :841-912 session worker, :1118-1290 reader ops,   *)
(* :1297-1308 writer).                                                      *)
(*                                                                          *)
(* Threads: the connection's READER (handles clone / close / interrupt /    *)
(* unknown ops itself, dispatches eval to the session's queue), one WORKER  *)
(* per session (dequeue, reset the interrupt flag, run, stop the flusher,   *)
(* final drain, reply), one output FLUSHER per running eval, the WRITER     *)
(* draining the single response channel to the socket.                      *)
(*                                                                          *)
(* An eval is abstracted to a SCRIPT: a sequence of steps                   *)
(*   [k |-> "out"|"err", t |-> text]  print to stdout / stderr              *)
(*   [k |-> "val"]   finish with a value     [k |-> "error"]  raise         *)
(*   [k |-> "loop"]  spin forever            [k |-> "loopout", t |-> text]  *)
(* Before every step the evaluator tests-and-clears the session's           *)
(* interrupt flag (src/eval.rs tick prologue).                              *)
EXTENDS Integers, Sequences, FiniteSets, TLC

CONSTANTS SessionPool    \* sequence of session names handed out by clone, in order

None == "none"
ERRTEXT == "#ERROR"

VARIABLES
  inq,      \* client -> server, FIFO (TCP)
  live,     \* sessions that exist
  nclone,   \* how many sessions have been created
  queue,    \* session |-> FIFO of eval requests [id, script]
  flag,     \* session |-> interrupt flag
  wk,       \* session |-> [st, id, script, pc, outcome]
  buf,      \* session |-> [out, err]  captured output not yet sent
  flusher,  \* session |-> the eval's output flusher thread is alive
  chan,     \* the response channel (all producers), FIFO
  wire,     \* what the client has received, in order
  printed,  \* history: id |-> [out, err] text the script has printed so far
  intrSeen  \* history: session |-> an interrupt/close was handled since the flag was last reset

vars == <<inq, live, nclone, queue, flag, wk, buf, flusher, chan, wire, printed, intrSeen>>

Sessions == {SessionPool[i] : i \in 1..Len(SessionPool)}
IdleW == [st |-> "idle", id |-> None, script |-> <<>>, pc |-> 1, outcome |-> None]

Msg(id, s, kind, text, status) == [id |-> id, session |-> s, kind |-> kind, text |-> text, status |-> status]
Done(id, s, status) == Msg(id, s, "done", "", status)

Init ==
  /\ inq = <<>> /\ live = {} /\ nclone = 0
  /\ queue = [s \in Sessions |-> <<>>]
  /\ flag = [s \in Sessions |-> FALSE]
  /\ wk = [s \in Sessions |-> IdleW]
  /\ buf = [s \in Sessions |-> [out |-> "", err |-> ""]]
  /\ flusher = [s \in Sessions |-> FALSE]
  /\ chan = <<>> /\ wire = <<>>
  /\ printed = <<>>
  /\ intrSeen = [s \in Sessions |-> FALSE]

(* ----------------------------------------------------------------- client *)
ClientSend(m) ==
  /\ inq' = Append(inq, m)
  /\ UNCHANGED <<live, nclone, queue, flag, wk, buf, flusher, chan, wire, printed, intrSeen>>

(* ----------------------------------------------------------------- reader *)
Reader ==
  /\ inq # <<>>
  /\ inq' = Tail(inq)
  /\ LET m == Head(inq) IN
     CASE m.op = "clone" ->
            /\ nclone < Len(SessionPool)
            /\ LET s == SessionPool[nclone + 1] IN
               /\ live' = live \cup {s}
               /\ nclone' = nclone + 1
               /\ chan' = Append(chan, Msg(m.id, None, "newsession", s, {"done"}))
            /\ UNCHANGED <<queue, flag, wk, buf, flusher, printed, intrSeen>>
       [] m.op \in {"describe", "ls-sessions"} ->   \* answered by the reader itself
            /\ chan' = Append(chan, Done(m.id, m.session, {"done"}))
            /\ UNCHANGED <<live, nclone, queue, flag, wk, buf, flusher, printed, intrSeen>>
       [] m.op \in {"eval", "load-file", "completions", "lookup"} ->
            \* every session-bound op goes through the same queue and worker; completions and lookup carry the
            \* script <<[k |-> "info"]>>: the worker answers from its environment with one final message
            IF m.session \in live
            THEN /\ queue' = [queue EXCEPT ![m.session] = Append(@, [id |-> m.id, script |-> m.script])]
                 /\ UNCHANGED <<live, nclone, flag, wk, buf, flusher, chan, printed, intrSeen>>
            ELSE /\ chan' = Append(chan, Done(m.id, m.session, {"done", "error", "unknown-session"}))
                 /\ UNCHANGED <<live, nclone, queue, flag, wk, buf, flusher, printed, intrSeen>>
       [] m.op = "interrupt" ->
            IF m.session \in live
            THEN /\ flag' = [flag EXCEPT ![m.session] = TRUE]
                 /\ intrSeen' = [intrSeen EXCEPT ![m.session] = TRUE]
                 /\ chan' = Append(chan, Done(m.id, m.session, {"done"}))
                 /\ UNCHANGED <<live, nclone, queue, wk, buf, flusher, printed>>
            ELSE /\ chan' = Append(chan, Done(m.id, m.session, {"done", "error", "unknown-session"}))
                 /\ UNCHANGED <<live, nclone, queue, flag, wk, buf, flusher, printed, intrSeen>>
       [] m.op = "close" ->
            IF m.session \in live
            THEN \* wakes a running eval; the queue's sender is dropped, queued requests are still served
                 /\ flag' = [flag EXCEPT ![m.session] = TRUE]
                 /\ intrSeen' = [intrSeen EXCEPT ![m.session] = TRUE]
                 /\ live' = live \ {m.session}
                 /\ chan' = Append(chan, Done(m.id, m.session, {"done", "session-closed"}))
                 /\ UNCHANGED <<nclone, queue, wk, buf, flusher, printed>>
            ELSE /\ chan' = Append(chan, Done(m.id, m.session, {"done", "error", "unknown-session"}))
                 /\ UNCHANGED <<live, nclone, queue, flag, wk, buf, flusher, printed, intrSeen>>
       [] OTHER ->   \* unknown op
            /\ chan' = Append(chan, Done(m.id, m.session, {"done", "error", "unknown-op"}))
            /\ UNCHANGED <<live, nclone, queue, flag, wk, buf, flusher, printed, intrSeen>>
  /\ UNCHANGED wire

(* ----------------------------------------------------------------- worker *)
WorkerDequeue(s) ==
  /\ wk[s].st = "idle" /\ queue[s] # <<>>
  /\ wk' = [wk EXCEPT ![s] = [st |-> "dequeued", id |-> Head(queue[s]).id, script |-> Head(queue[s]).script,
                              pc |-> 1, outcome |-> None]]
  /\ queue' = [queue EXCEPT ![s] = Tail(@)]
  /\ UNCHANGED <<inq, live, nclone, flag, buf, flusher, chan, wire, printed, intrSeen>>

\* "Clear any stray interrupt set while the session was idle", fresh buffers, start the flusher
WorkerResetFlag(s) ==
  /\ wk[s].st = "dequeued"
  /\ flag' = [flag EXCEPT ![s] = FALSE]
  /\ intrSeen' = [intrSeen EXCEPT ![s] = FALSE]
  /\ buf' = [buf EXCEPT ![s] = [out |-> "", err |-> ""]]
  /\ flusher' = [flusher EXCEPT ![s] = TRUE]
  /\ wk' = [wk EXCEPT ![s].st = "running"]
  /\ printed' = IF wk[s].id \in DOMAIN printed THEN printed
                ELSE (wk[s].id :> [out |-> "", err |-> ""]) @@ printed
  /\ UNCHANGED <<inq, live, nclone, queue, chan, wire>>

WorkerStep(s) ==
  /\ wk[s].st = "running"
  /\ IF wk[s].script[wk[s].pc].k = "info"
     THEN \* completions / lookup do not evaluate anything: they neither test nor clear the interrupt flag
          /\ wk' = [wk EXCEPT ![s].st = "evaldone", ![s].outcome = "info"]
          /\ UNCHANGED <<flag, buf, printed>>
     ELSE IF flag[s]
     THEN \* the evaluator sees the flag at the top of a step, clears it and stops
          /\ flag' = [flag EXCEPT ![s] = FALSE]
          /\ wk' = [wk EXCEPT ![s].st = "evaldone", ![s].outcome = "interrupted"]
          /\ UNCHANGED <<buf, printed>>
     ELSE LET step == wk[s].script[wk[s].pc]  id == wk[s].id IN
          /\ UNCHANGED flag
          /\ CASE step.k \in {"out", "loopout"} ->
                    /\ buf' = [buf EXCEPT ![s].out = @ \o step.t]
                    /\ printed' = [printed EXCEPT ![id].out = @ \o step.t]
                    /\ wk' = IF step.k = "out" THEN [wk EXCEPT ![s].pc = @ + 1] ELSE wk
               [] step.k = "err" ->
                    /\ buf' = [buf EXCEPT ![s].err = @ \o step.t]
                    /\ printed' = [printed EXCEPT ![id].err = @ \o step.t]
                    /\ wk' = [wk EXCEPT ![s].pc = @ + 1]
               [] step.k = "val" ->
                    /\ wk' = [wk EXCEPT ![s].st = "evaldone", ![s].outcome = "value"]
                    /\ UNCHANGED <<buf, printed>>
               [] step.k = "error" ->
                    /\ wk' = [wk EXCEPT ![s].st = "evaldone", ![s].outcome = "error"]
                    /\ UNCHANGED <<buf, printed>>
               [] step.k = "loop" -> UNCHANGED <<wk, buf, printed>>
  /\ UNCHANGED <<inq, live, nclone, queue, flusher, chan, wire, intrSeen>>

\* the flusher wakes up and moves one non-empty buffer to the channel
FlushOut(s) ==
  /\ flusher[s] /\ buf[s].out # ""
  /\ chan' = Append(chan, Msg(wk[s].id, s, "out", buf[s].out, {}))
  /\ buf' = [buf EXCEPT ![s].out = ""]
  /\ UNCHANGED <<inq, live, nclone, queue, flag, wk, flusher, wire, printed, intrSeen>>
FlushErr(s) ==
  /\ flusher[s] /\ buf[s].err # ""
  /\ chan' = Append(chan, Msg(wk[s].id, s, "err", buf[s].err, {}))
  /\ buf' = [buf EXCEPT ![s].err = ""]
  /\ UNCHANGED <<inq, live, nclone, queue, flag, wk, flusher, wire, printed, intrSeen>>

\* drop the stop channel and join the flusher
WorkerStopFlusher(s) ==
  /\ wk[s].st = "evaldone"
  /\ flusher' = [flusher EXCEPT ![s] = FALSE]
  /\ wk' = [wk EXCEPT ![s].st = "joined"]
  /\ UNCHANGED <<inq, live, nclone, queue, flag, buf, chan, wire, printed, intrSeen>>

\* drain whatever was printed since the flusher's last pass: stdout then stderr.  Every message is its own
\* send on the shared response channel, so the messages of another session can come in between.
WorkerFinalDrainOut(s) ==
  /\ wk[s].st = "joined"
  /\ chan' = chan \o (IF buf[s].out # "" THEN <<Msg(wk[s].id, s, "out", buf[s].out, {})>> ELSE <<>>)
  /\ buf' = [buf EXCEPT ![s].out = ""]
  /\ wk' = [wk EXCEPT ![s].st = "drainedout"]
  /\ UNCHANGED <<inq, live, nclone, queue, flag, flusher, wire, printed, intrSeen>>
WorkerFinalDrainErr(s) ==
  /\ wk[s].st = "drainedout"
  /\ chan' = chan \o (IF buf[s].err # "" THEN <<Msg(wk[s].id, s, "err", buf[s].err, {})>> ELSE <<>>)
  /\ buf' = [buf EXCEPT ![s].err = ""]
  /\ wk' = [wk EXCEPT ![s].st = "drained"]
  /\ UNCHANGED <<inq, live, nclone, queue, flag, flusher, wire, printed, intrSeen>>

\* value / error text ...
WorkerReplyText(s) ==
  /\ wk[s].st = "drained"
  /\ LET id == wk[s].id  oc == wk[s].outcome IN
     chan' = chan \o (IF oc = "value" THEN <<Msg(id, s, "value", "", {})>>
                      ELSE IF oc = "info" THEN <<>> ELSE <<Msg(id, s, "err", ERRTEXT, {})>>)
  /\ wk' = [wk EXCEPT ![s].st = "replied"]
  /\ UNCHANGED <<inq, live, nclone, queue, flag, buf, flusher, wire, printed, intrSeen>>
\* ... then the final done
WorkerReplyDone(s) ==
  /\ wk[s].st = "replied"
  /\ LET id == wk[s].id  oc == wk[s].outcome IN
     chan' = Append(chan, Done(id, s, CASE oc \in {"value", "info"} -> {"done"}
                                       [] oc = "interrupted" -> {"done", "interrupted"}
                                       [] OTHER -> {"done", "eval-error"}))
  /\ wk' = [wk EXCEPT ![s] = IdleW]
  /\ UNCHANGED <<inq, live, nclone, queue, flag, buf, flusher, wire, printed, intrSeen>>

(* ----------------------------------------------------------------- writer *)
Writer ==
  /\ chan # <<>>
  /\ wire' = Append(wire, Head(chan))
  /\ chan' = Tail(chan)
  /\ UNCHANGED <<inq, live, nclone, queue, flag, wk, buf, flusher, printed, intrSeen>>

ServerStep ==
  \/ Reader \/ Writer
  \/ \E s \in Sessions : \/ WorkerDequeue(s) \/ WorkerResetFlag(s) \/ WorkerStep(s) \/ FlushOut(s) \/ FlushErr(s)
                         \/ WorkerStopFlusher(s) \/ WorkerFinalDrainOut(s) \/ WorkerFinalDrainErr(s)
                         \/ WorkerReplyText(s) \/ WorkerReplyDone(s)

(* ------------------------------------------------------------- properties *)
IsDone(m) == "done" \in m.status
DoneIdx(id) == {i \in 1..Len(wire) : wire[i].id = id /\ IsDone(wire[i])}
\* C30: at most one done per id, and nothing with that id after it
AtMostOneDone == \A i, j \in 1..Len(wire) :
                   (IsDone(wire[i]) /\ IsDone(wire[j]) /\ wire[i].id = wire[j].id /\ wire[i].id # None) => i = j
DoneIsLast == \A i, j \in 1..Len(wire) :
                (i < j /\ IsDone(wire[i]) /\ wire[i].id # None) => wire[j].id # wire[i].id
RECURSIVE Concat(_, _, _, _)
Concat(w, id, kind, i) ==
  IF i > Len(w) THEN ""
  ELSE (IF w[i].id = id /\ w[i].kind = kind /\ w[i].text # ERRTEXT THEN w[i].text ELSE "") \o Concat(w, id, kind, i + 1)
\* C30: when an eval's done is on the wire, all it printed has arrived before, complete and in order
OutputComplete ==
  \A i \in 1..Len(wire) :
    (IsDone(wire[i]) /\ wire[i].id \in DOMAIN printed) =>
       /\ Concat(SubSeq(wire, 1, i), wire[i].id, "out", 1) = printed[wire[i].id].out
       /\ Concat(SubSeq(wire, 1, i), wire[i].id, "err", 1) = printed[wire[i].id].err
\* C31 (safety half): an eval only ends interrupted if an interrupt / close was
\* handled after its flag reset
InterruptedOnlyIfAsked ==
  \A s \in Sessions : wk[s].outcome = "interrupted" => intrSeen[s]
=============================================================================
