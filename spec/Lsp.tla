-------------------------------- MODULE Lsp --------------------------------
(* The language server's message discipline (property C28).  Anchors:       *)
(* src/lsp.rs:1416-1604 handle_message, :1607-1653 run_lsp, :214-270        *)
(* get_diagnostics.  The server is single threaded: read a message, handle  *)
(* it, write whatever it produced, repeat until `exit`.                     *)
(*                                                                          *)
(* A client message is [kind, id, method, uri, text]:                       *)
(*   kind "request"       has an id and a method                            *)
(*   kind "notification"  has a method, no id                               *)
(*   kind "garbage"       not a JSON-RPC message (no id recoverable)        *)
(*   kind "badrequest"    has an id but no usable method / params           *)
(* Server output per message (ResponseDiscipline):                          *)
(*   request       exactly one response with that id (result or error)      *)
(*   badrequest    exactly one error response with that id                  *)
(*   notification  nothing, except didOpen / didChange / didClose: one      *)
(*                 publishDiagnostics for that uri whose payload is         *)
(*                 Diagnostics(text) -- the conformance step equates it     *)
(*                 with `garden check --json` on the same text              *)
(*   garbage       nothing or one error response without id                 *)
(*   exit          the process ends, status 0 iff shutdown was requested    *)
EXTENDS Integers, Sequences, FiniteSets, TLC

VARIABLES inbox,     \* messages the client has written and the server has not read
          outbox,    \* what the server has written, in order
          docs,      \* uri |-> text id of open documents
          shutdown,  \* a shutdown request has been answered
          running,   \* the process is alive
          exitcode

vars == <<inbox, outbox, docs, shutdown, running, exitcode>>

KnownMethods == {"initialize", "shutdown", "textDocument/hover", "textDocument/definition", "textDocument/completion",
                 "textDocument/formatting", "textDocument/rename", "textDocument/codeAction", "textDocument/documentHighlight",
                 "textDocument/documentSymbol", "textDocument/references", "textDocument/signatureHelp"}

Response(id, ok) == [kind |-> "response", id |-> id, ok |-> ok, uri |-> "", text |-> ""]
Diag(uri, text)  == [kind |-> "diagnostics", id |-> "", ok |-> TRUE, uri |-> uri, text |-> text]

Init == inbox = <<>> /\ outbox = <<>> /\ docs = <<>> /\ shutdown = FALSE /\ running = TRUE /\ exitcode = -1

ClientSend(m) ==
  /\ inbox' = Append(inbox, m)
  /\ UNCHANGED <<outbox, docs, shutdown, running, exitcode>>

Handle ==
  /\ running /\ inbox # <<>>
  /\ inbox' = Tail(inbox)
  /\ LET m == Head(inbox) IN
     CASE m.kind = "request" ->
            /\ \E ok \in (IF m.method \in KnownMethods THEN {TRUE, FALSE} ELSE {FALSE}) :
                  outbox' = Append(outbox, Response(m.id, ok))
            /\ shutdown' = (shutdown \/ m.method = "shutdown")
            /\ UNCHANGED <<docs, running, exitcode>>
       [] m.kind = "badrequest" ->
            /\ outbox' = Append(outbox, Response(m.id, FALSE))
            /\ UNCHANGED <<docs, shutdown, running, exitcode>>
       [] m.kind = "garbage" ->
            /\ \/ UNCHANGED outbox
               \/ outbox' = Append(outbox, Response("", FALSE))
            /\ UNCHANGED <<docs, shutdown, running, exitcode>>
       [] m.kind = "notification" ->
            IF m.method = "exit"
            THEN /\ running' = FALSE /\ exitcode' = (IF shutdown THEN 0 ELSE 1)
                 /\ UNCHANGED <<outbox, docs, shutdown>>
            ELSE IF m.method \in {"textDocument/didOpen", "textDocument/didChange"}
            THEN /\ docs' = (m.uri :> m.text) @@ docs
                 /\ outbox' = Append(outbox, Diag(m.uri, m.text))
                 /\ UNCHANGED <<shutdown, running, exitcode>>
            ELSE IF m.method = "textDocument/didClose"
            THEN \* the document is forgotten and its diagnostics are cleared (empty payload "")
                 /\ docs' = [u \in DOMAIN docs \ {m.uri} |-> docs[u]]
                 /\ outbox' = Append(outbox, Diag(m.uri, ""))
                 /\ UNCHANGED <<shutdown, running, exitcode>>
            ELSE UNCHANGED <<outbox, docs, shutdown, running, exitcode>>

(* C28 *)
RequestsOf(ms) == {i \in 1..Len(ms) : ms[i].kind \in {"request", "badrequest"}}
\* every response answers a request that was sent, each at most once, in order
ResponseDiscipline ==
  LET rs == [i \in {j \in 1..Len(outbox) : outbox[j].kind = "response" /\ outbox[j].id # ""} |-> outbox[i].id] IN
  \A i, j \in DOMAIN rs : (i # j) => rs[i] # rs[j]
=============================================================================
