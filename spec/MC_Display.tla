----------------------------- MODULE MC_Display -----------------------------
(* Design-level check of C12 for strings: every string over a 9-symbol      *)
(* alphabet (letter, quote, backslash, newline, tab, space, 2-byte, 4-byte  *)
(* character, brace) up to length MaxLen is read back from its printed form.*)
EXTENDS Display
CONSTANT MaxLen
Alpha == {97, 34, 92, 10, 9, 32, 233, 128512, 123}
VARIABLE s
Init == \E n \in 0..MaxLen : s \in [1..n -> Alpha]
Next == UNCHANGED s
RoundTrip == StringRoundTrip(s)
=============================================================================
