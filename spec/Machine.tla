------------------------------ MODULE Machine ------------------------------
(* The explicit-stack, resumable evaluator, shaped like src/eval.rs:        *)
(* one transition per tick of `eval()` (eval.rs:7102-7258), one case per    *)
(* (expression kind x ExpressionState) of `eval_expr` (eval.rs:6394-7088).  *)
(*                                                                          *)
(*   stack   sequence of frames (Env.stack); the last one is running        *)
(*   frame   [E, V, B, NB, uses, rt, rline]                                 *)
(*     E  exprs_to_eval: entries [st, e, u]  (top = last)                   *)
(*        st in NE | PW | PD | PN | ES  = NotEvaluated,                     *)
(*           PartiallyEvaluated(WillRunBlock | DoneRunBlock | NotBlock),    *)
(*           EvaluatedSubexpressions; u = value_is_used of the node         *)
(*     V  evalled_values (top = last)    B  binding blocks (innermost last) *)
(*     NB bindings_next_block   uses = caller_uses_value   rt = return hint *)
(*   out     everything printed so far                                      *)
(*   status  "running" | "stopped" | "done";  stop = [kind, line]           *)
(*   intr    the session's interrupted flag (set by the environment)        *)
(*                                                                          *)
(* Value-level semantics (operators, method results, type tests) are the    *)
(* operators of Ref.tla / Values.tla; everything about control, scoping,    *)
(* stacks, restoration after errors and interrupts is defined here,         *)
(* independently of Ref's recursion, and checked against it (MC_Machine).   *)
(* User-defined methods get a frame like functions do.  The prelude's own   *)
(* functions and methods (range, map, filter, ...) are single steps here:   *)
(* the machine does not look inside the prelude (map / filter run their     *)
(* closure with Ref's big-step evaluator, output included).                 *)
EXTENDS Ref

CONSTANTS TickLimit,      \* 0 = none  (env.tick_limit)
          StackLimit,     \* 0 = none  (env.stack_limit)
          ProgOf(_)       \* the program table: index |-> program AST

\* pid selects the program being run; it never changes.  (The AST itself is
\* kept out of the state: states are fingerprinted on every step.)
VARIABLES pid, stack, out, ticks, status, stop, intr, result

mvars == <<pid, stack, out, ticks, status, stop, intr, result>>
prog == ProgOf(pid)

Front(s) == SubSeq(s, 1, Len(s) - 1)
Last(s)  == s[Len(s)]

Entry(st, e, u) == [st |-> st, e |-> e, u |-> u]
NoStop == [kind |-> "", line |-> 0]

Frame(E, B, uses, rt, rline) ==
  [E |-> E, V |-> <<UnitV>>, B |-> B, NB |-> EmptyBlk, uses |-> uses, rt |-> rt, rline |-> rline]

PushE(f, st, e, u) == [f EXCEPT !.E = Append(@, Entry(st, e, u))]
PushV(f, v)        == [f EXCEPT !.V = Append(@, v)]
PushVIf(f, u, v)   == IF u THEN PushV(f, v) ELSE f
TopV(f)            == Last(f.V)
PopV(f)            == [f EXCEPT !.V = Front(@)]
PopB(f)            == [f EXCEPT !.B = Front(@)]

RECURSIVE PushStmts(_, _, _, _)
\* Push statements i..1 of a block so that statement 1 ends on top; only the
\* last statement's value is used, and only if the block's value is.
PushStmts(f, stmts, i, u) ==
  IF i = 0 THEN f
  ELSE PushStmts(PushE(f, "NE", stmts[i], u /\ i = Len(stmts)), stmts, i - 1, u)

\* eval_block: open a scope holding the pending bindings, schedule the body.
EnterBlock(f, stmts, u) ==
  LET f1 == [f EXCEPT !.B = Append(@, f.NB), !.NB = EmptyBlk] IN
  LET f2 == PushStmts(f1, stmts, Len(stmts), u) IN
  IF u /\ stmts = <<>> THEN PushV(f2, UnitV) ELSE f2

RECURSIVE PushItems(_, _, _)
\* Push items 1..n in source order (so that the last one is evaluated first).
PushItems(f, xs, i) ==
  IF i > Len(xs) THEN f ELSE PushItems(PushE(f, "NE", xs[i], TRUE), xs, i + 1)

\* Pop n values; the first popped is the first element.
PopN(f, n) == [f |-> [f EXCEPT !.V = SubSeq(@, 1, Len(@) - n)],
               vs |-> [i \in 1..n |-> f.V[Len(f.V) - i + 1]]]

\* Result of one step of eval_expr.
\*   f: the running frame afterwards, nf: a new frame to push (or none),
\*   out: text printed by the step, err: error raised (kind "" = none)
Res(f)            == [f |-> f, call |-> FALSE, nf |-> f, out |-> "", err |-> NoStop]
ResOut(f, s)      == [f |-> f, call |-> FALSE, nf |-> f, out |-> s, err |-> NoStop]
ResCall(f, nf)    == [f |-> f, call |-> TRUE, nf |-> nf, out |-> "", err |-> NoStop]
ResErr(f, k, l)   == [f |-> f, call |-> FALSE, nf |-> f, out |-> "", err |-> [kind |-> k, line |-> l]]
\* an error raised inside a prelude step after it printed something (a closure run by map / filter)
ResErrOut(f, k, l, s) == [f |-> f, call |-> FALSE, nf |-> f, out |-> s, err |-> [kind |-> k, line |-> l]]

RECURSIVE UnwindBreak(_)
\* eval_break: leave the innermost loop whose body is running, popping the
\* block of every if / match body unwound on the way and of a while body;
\* the loop's value (Unit) is pushed iff the loop's own value is used.
UnwindBreak(f) ==
  IF f.E = <<>> THEN f
  ELSE LET en == Last(f.E)  f1 == [f EXCEPT !.E = Front(@)] IN
       IF en.e.k = "while" /\ en.st = "PD"
       THEN PushVIf([PopB(f1) EXCEPT !.E = Append(@, [en EXCEPT !.st = "ES"])], en.u, UnitV)
       ELSE IF en.e.k \in {"for", "ford"} /\ en.st = "PD"
       THEN PushVIf([f1 EXCEPT !.V = SubSeq(@, 1, Len(@) - 2), !.E = Append(@, [en EXCEPT !.st = "ES"])], en.u, UnitV)
       ELSE IF en.e.k \in {"if", "match", "try"} /\ en.st = "ES" THEN UnwindBreak(PopB(f1))
       ELSE UnwindBreak(f1)

RECURSIVE UnwindContinue(_)
UnwindContinue(f) ==
  IF f.E = <<>> THEN f
  ELSE LET en == Last(f.E)  f1 == [f EXCEPT !.E = Front(@)] IN
       IF en.e.k \in {"while", "for", "ford"} /\ en.st = "PD" THEN f
       ELSE IF en.e.k \in {"if", "match", "try"} /\ en.st = "ES" THEN UnwindContinue(PopB(f1))
       ELSE UnwindContinue(f1)

LookupVar(f, x) ==
  LET i == FindBlk(f.B, x, Len(f.B)) IN
  IF i # 0 THEN [found |-> TRUE, v |-> f.B[i][x]]
  ELSE IF FunIdx(prog, x) # 0 \/ x \in BuiltinFuns THEN [found |-> TRUE, v |-> FunV(x)]
  ELSE [found |-> FALSE, v |-> UnitV]

RECURSIVE FirstArm(_, _, _)
FirstArm(arms, v, i) ==
  IF i > Len(arms) THEN 0
  ELSE IF arms[i].wild \/ arms[i].v = v.n THEN i ELSE FirstArm(arms, v, i + 1)

DummySt == St(<<>>, "", 1)
PreludeSt == St(<<>>, "", 300)      \* for the prelude steps that call back into closures

(* One step of eval_expr on entry en, which has already been popped from f. *)
StepExpr(f, en) ==
  LET e == en.e  st == en.st  u == en.u IN
  CASE e.k = "int"  -> Res(PushVIf(f, u, IntV(e.v)))
    [] e.k = "str"  -> Res(PushVIf(f, u, StrV(e.v)))
    [] e.k = "bool" -> Res(PushVIf(f, u, BoolV(e.v)))
    [] e.k = "unit" -> Res(PushVIf(f, u, UnitV))
    [] e.k = "var"  ->
         LET r == LookupVar(f, e.n) IN
         IF r.found THEN Res(PushVIf(f, u, r.v)) ELSE ResErr(f, "NoSuchVariable", e.line)
    [] e.k = "lam"  -> Res(PushVIf(f, u, CloV(e.ps, e.b, f.B, e.rt, e.line)))
    [] e.k = "paren" -> Res(PushE(f, "NE", e.e, u))
    [] e.k = "let"  ->
         IF st = "NE" THEN Res(PushE(PushE(f, "ES", e, u), "NE", e.e, TRUE))
         ELSE LET v == TopV(f)  f1 == PopV(f) IN
              Res(PushVIf([f1 EXCEPT !.B[Len(f1.B)] = Bind(@, e.n, v)], u, UnitV))
    [] e.k = "set"  ->
         IF st = "NE" THEN Res(PushE(PushE(f, "ES", e, u), "NE", e.e, TRUE))
         ELSE LET i == FindBlk(f.B, e.n, Len(f.B)) IN
              IF i = 0 THEN ResErr(f, "NotBound", e.line)
              ELSE LET v == TopV(f)  f1 == PopV(f) IN
                   Res(PushVIf([f1 EXCEPT !.B[i] = Bind(@, e.n, v)], u, UnitV))
    [] e.k = "upd"  ->
         IF st = "NE" THEN Res(PushE(PushE(f, "ES", e, u), "NE", e.e, TRUE))
         ELSE LET i == FindBlk(f.B, e.n, Len(f.B)) IN
              IF i = 0 THEN ResErr(f, "NotBound", e.line)
              ELSE LET cur == f.B[i][e.n]  r == TopV(f)  f1 == PopV(f) IN
                   IF ~IsInt(cur) \/ ~IsInt(r) THEN ResErr(f, "TypeError", e.line)
                   ELSE LET rr == IntBin(e.op, cur.v, r.v, e.line, DummySt) IN
                        IF rr.c = "big" THEN ResErr(f, "BIG", e.line)
                        ELSE IF rr.c # "ok" THEN ResErr(f, rr.ek, e.line)
                        ELSE Res(PushVIf([f1 EXCEPT !.B[i] = Bind(@, e.n, rr.v)], u, UnitV))
    [] e.k = "bin"  ->
         IF st = "NE" THEN Res(PushE(PushE(PushE(f, "ES", e, u), "NE", e.r, TRUE), "NE", e.l, TRUE))
         ELSE LET p == PopN(f, 2) IN
              LET b == p.vs[1]  a == p.vs[2]  f1 == p.f IN
              (CASE e.op \in IntOps ->
                      IF ~IsInt(a) \/ ~IsInt(b) THEN ResErr(f, "TypeError", e.line)
                      ELSE LET rr == IntBin(e.op, a.v, b.v, e.line, DummySt) IN
                           IF rr.c = "big" THEN ResErr(f, "BIG", e.line)
                           ELSE IF rr.c # "ok" THEN ResErr(f, rr.ek, e.line)
                           ELSE Res(PushVIf(f1, u, rr.v))
                 [] e.op = "==" -> Res(PushVIf(f1, u, BoolV(ValEq(a, b))))
                 [] e.op = "!=" -> Res(PushVIf(f1, u, BoolV(~ValEq(a, b))))
                 [] e.op \in {"&&", "||"} ->
                      IF ~IsBool(a) \/ ~IsBool(b) THEN ResErr(f, "TypeError", e.line)
                      ELSE Res(PushVIf(f1, u, BoolV(IF e.op = "&&" THEN IsTrue(a) /\ IsTrue(b)
                                                    ELSE IsTrue(a) \/ IsTrue(b))))
                 [] e.op = "^" ->
                      IF ~IsStr(a) \/ ~IsStr(b) THEN ResErr(f, "TypeError", e.line)
                      ELSE Res(PushVIf(f1, u, StrV(a.v \o b.v))))
    [] e.k \in {"list", "tuple"} ->
         IF st = "NE" THEN Res(PushItems(PushE(f, "ES", e, u), e.xs, 1))
         ELSE LET p == PopN(f, Len(e.xs)) IN
              Res(PushVIf(p.f, u, IF e.k = "list" THEN ListV(p.vs) ELSE TupV(p.vs)))
    [] e.k = "slit" ->
         IF st = "NE" THEN Res(PushItems(PushE(f, "ES", e, u), [i \in 1..Len(e.fs) |-> e.fs[i].e], 1))
         ELSE LET p == PopN(f, Len(e.fs))  bad == SlitProblem(prog, e, p.vs) IN
              IF bad.ek # "" THEN ResErr(f, bad.ek, bad.line)
              ELSE Res(PushVIf(p.f, u, StructV(e.n, SlitFields(e, p.vs))))
    [] e.k = "dlit" ->
         \* each pair's value, then its key, onto the work list: the last pair's key runs first
         IF st = "NE"
         THEN Res(PushItems(PushE(f, "ES", e, u),
                            [i \in 1..(2 * Len(e.kvs)) |-> IF i % 2 = 1 THEN e.kvs[(i + 1) \div 2].val ELSE e.kvs[i \div 2].key], 1))
         ELSE LET p == PopN(f, 2 * Len(e.kvs))  r == DictFold(e, p.vs, 1, <<>>, DummySt) IN
              IF r.c # "ok" THEN ResErr(f, r.ek, r.line) ELSE Res(PushVIf(p.f, u, r.v))
    [] e.k = "dot" ->
         IF st = "NE" THEN Res(PushE(PushE(f, "ES", e, u), "NE", e.e, TRUE))
         ELSE LET v == TopV(f) IN
              IF v.k # "Struct" THEN ResErr(f, "TypeError", e.line)
              ELSE LET S == {i \in 1..Len(v.fs) : v.fs[i].n = e.f} IN
                   IF S = {} THEN ResErr(f, "NoField", e.line)
                   ELSE Res(PushVIf(PopV(f), u, v.fs[CHOOSE i \in S : TRUE].v))
    [] e.k = "letd" ->
         IF st = "NE" THEN Res(PushE(PushE(f, "ES", e, u), "NE", e.e, TRUE))
         ELSE LET v == TopV(f)  f1 == PopV(f) IN
              IF v.k # "Tuple" \/ Len(v.v) # Len(e.ns) THEN ResErr(f, "TypeError", e.line)
              ELSE Res(PushVIf([f1 EXCEPT !.B[Len(f1.B)] = BindParams(e.ns, v.v, 1, @)], u, UnitV))
    [] e.k = "try" ->
         \* the try body is a block; the catch block is not evaluated (see Ref.tla)
         IF st = "NE" THEN Res(EnterBlock(PushE(f, "ES", e, u), e.b, u)) ELSE Res(PopB(f))
    [] e.k = "ctor" ->
         IF e.args = <<>> THEN Res(PushVIf(f, u, EnumV(e.n, FALSE, NoPayload)))
         ELSE IF st = "NE" THEN Res(PushItems(PushE(f, "ES", e, u), e.args, 1))
         ELSE Res(PushVIf(PopV(f), u, EnumV(e.n, TRUE, TopV(f))))
    [] e.k = "if"   ->
         (CASE st = "NE" -> Res(PushE(PushE(f, "PW", e, u), "NE", e.c, TRUE))
            [] st = "PW" ->
                 LET c == TopV(f) IN
                 IF ~IsBool(c) THEN ResErr(f, "TypeError", e.c.line)
                 ELSE LET f1 == PushE(PopV(f), "ES", e, u)  bu == u /\ e.else IN
                      IF IsTrue(c) THEN Res(EnterBlock(f1, e.t, bu))
                      ELSE IF e.else THEN Res(EnterBlock(f1, e.f, bu))
                      ELSE Res([f1 EXCEPT !.B = Append(@, EmptyBlk)])
            [] OTHER -> Res(PushVIf(PopB(f), u /\ ~e.else, UnitV)))
    [] e.k = "while" ->
         (CASE st = "NE" -> Res(PushE(PushE(f, "PW", e, u), "NE", e.c, TRUE))
            [] st = "PW" ->
                 LET c == TopV(f) IN
                 IF ~IsBool(c) THEN ResErr(f, "TypeError", e.c.line)
                 ELSE IF IsTrue(c) THEN Res(EnterBlock(PushE(PopV(f), "PD", e, u), e.b, FALSE))
                 ELSE Res(PushVIf(PushE(PopV(f), "ES", e, u), u, UnitV))
            [] st = "PD" -> Res(PushE(PushE(PopB(f), "PW", e, u), "NE", e.c, TRUE))
            [] OTHER -> Res(f))
    [] e.k \in {"for", "ford"} ->
         (CASE st = "NE" -> Res(PushE(PushE(PushV(f, IntV(0)), "PW", e, u), "NE", e.it, TRUE))
            [] st = "PW" ->
                 LET p == PopN(f, 2) IN
                 LET it == p.vs[1]  idx == p.vs[2]  f1 == p.f IN
                 IF ~IsList(it) THEN ResErr(f, "TypeError", e.it.line)
                 ELSE IF idx.v >= Len(it.v)
                      THEN Res(PushVIf(PushE([f1 EXCEPT !.B = Append(@, EmptyBlk)], "ES", e, u), u, UnitV))
                      ELSE IF ~ForItemOk(e, it.v[idx.v + 1]) THEN ResErr(f, "TypeError", e.it.line)
                      ELSE LET f2 == PushV(PushV(PushE(f1, "PD", e, u), IntV(idx.v + 1)), it) IN
                           Res(EnterBlock([f2 EXCEPT !.NB = ForBinds(e, it.v[idx.v + 1])], e.b, FALSE))
            [] st = "PD" -> Res(PushE(PopB(f), "PW", e, u))
            [] OTHER -> Res(PopB(f)))
    [] e.k = "match" ->
         (CASE st = "NE" -> Res(PushE(PushE(f, "PW", e, u), "NE", e.s, TRUE))
            [] st = "PW" ->
                 LET s == TopV(f) IN
                 IF s.k # "Enum" THEN ResErr(f, "TypeError", e.s.line)
                 ELSE LET i == FirstArm(e.arms, s, 1) IN
                      IF i = 0 THEN ResErr(f, "NoCase", e.s.line)
                      ELSE LET a == e.arms[i]  f1 == PushE(PopV(f), "ES", e, u) IN
                           Res(EnterBlock([f1 EXCEPT !.NB = IF ~a.wild /\ a.bind # "" /\ s.has
                                                              THEN Bind(EmptyBlk, a.bind, s.p) ELSE EmptyBlk],
                                          a.b, u))
            [] OTHER -> Res(PopB(f)))
    [] e.k = "ret"  ->
         IF st = "NE" THEN Res(PushE(PushE(f, "ES", e, u), "NE", e.e, TRUE))
         ELSE Res([f EXCEPT !.E = <<>>])
    [] e.k = "break"    -> Res(UnwindBreak(f))
    [] e.k = "continue" -> Res(UnwindContinue(f))
    [] e.k = "call" ->
         (CASE st = "NE" -> Res(PushE(PushE(f, "PN", e, u), "NE", e.f, TRUE))
            [] st = "PN" -> Res(PushItems(PushE(f, "ES", e, u), e.args, 1))
            [] OTHER ->
                 LET p == PopN(f, Len(e.args)) IN
                 LET args == p.vs  g == TopV(p.f)  f1 == PopV(p.f) IN
                 (CASE g.k = "Clo" ->
                         IF Len(g.ps) # Len(args) THEN ResErr(f, "Arity", e.line)
                         ELSE ResCall(f1, PushStmts(Frame(<<>>, Append(g.env, BindParams(g.ps, args, 1, EmptyBlk)),
                                                          u, g.rt, g.line), g.b, Len(g.b), TRUE))
                    [] g.k = "Fun" /\ FunIdx(prog, g.n) = 0 ->
                         LET r == CallBuiltin(g.n, args, e.line, DummySt) IN
                         IF r.c = "big" THEN ResErr(f, "BIG", e.line)
                         ELSE IF r.c # "ok" THEN ResErr(f, r.ek, r.line) ELSE Res(PushVIf(f1, u, r.v))
                    [] g.k = "Fun" ->
                         LET d == prog.funs[FunIdx(prog, g.n)] IN
                         IF Len(d.ps) # Len(args) THEN ResErr(f, "Arity", e.line)
                         ELSE IF \E i \in 1..Len(args) : ~HasType(args[i], d.pt[i]) THEN ResErr(f, "TypeError", e.line)
                         ELSE ResCall(f1, PushStmts(Frame(<<>>, <<BindParams(d.ps, args, 1, EmptyBlk)>>,
                                                          u, d.rt, d.line), d.b, Len(d.b), TRUE))
                    [] OTHER -> ResErr(f, "ExpectedFunction", e.line)))
    [] e.k = "mcall" ->
         IF st = "NE" THEN Res(PushE(PushItems(PushE(f, "ES", e, u), e.args, 1), "NE", e.recv, TRUE))
         ELSE LET p == PopN(f, Len(e.args))  recv == TopV(p.f)  mi == MethIdx(prog, TypeName(recv), e.m) IN
              IF mi # 0
              THEN LET d == prog.meths[mi] IN
                   IF Len(d.ps) # Len(p.vs) THEN ResErr(f, "Arity", e.line)
                   ELSE ResCall(PopV(p.f), PushStmts(Frame(<<>>, <<Bind(BindParams(d.ps, p.vs, 1, EmptyBlk), d.this, recv)>>,
                                                           u, d.rt, d.line), d.b, Len(d.b), TRUE))
              ELSE LET r == MethodCall(prog, e, recv, p.vs, PreludeSt) IN
                   IF r.c \in {"big", "fuel"} THEN ResErr(f, "BIG", e.line)
                   ELSE IF r.c # "ok" THEN ResErrOut(f, r.ek, r.line, r.s.out)
                   ELSE ResOut(PushVIf(PopV(p.f), u, r.v), r.s.out)
    [] e.k = "show" ->
         IF st = "NE" THEN Res(PushE(PushE(f, "ES", e, u), "NE", e.e, TRUE))
         ELSE ResOut(PushVIf(PopV(f), u, UnitV), Disp(TopV(f)) \o "\n")
    [] e.k = "print" -> ResOut(PushVIf(f, u, UnitV), e.v)
    [] e.k = "throw" -> ResErr(f, "Thrown", e.line)
    [] e.k = "assert" ->
         IF st = "NE" THEN Res(PushE(PushE(f, "ES", e, u), "NE", e.e, TRUE))
         ELSE LET c == TopV(f) IN
              IF ~IsBool(c) THEN ResErr(f, "TypeError", e.line)
              ELSE IF IsTrue(c) THEN Res(PushVIf(PopV(f), u, UnitV))
              ELSE ResErr(f, "AssertionFailed", e.line)

Top == stack[Len(stack)]
SetTop(fr) == [stack EXCEPT ![Len(stack)] = fr]

InitFrame(p) ==
  \* every top-level statement keeps value_is_used = TRUE (eval_toplevel_exprs)
  LET F[i \in 0..Len(p.main)] ==
        IF i = 0 THEN Frame(<<>>, <<EmptyBlk>>, TRUE, "", 0)
        ELSE PushE(F[i - 1], "NE", p.main[Len(p.main) - i + 1], TRUE)
  IN F[Len(p.main)]

MInit(i) ==
  /\ pid = i
  /\ stack = <<InitFrame(ProgOf(i))>>
  /\ out = ""
  /\ ticks = 0
  /\ status = "running"
  /\ stop = NoStop
  /\ intr = FALSE
  /\ result = UnitV

Stopped(kind, line) ==
  /\ status' = "stopped"
  /\ stop' = [kind |-> kind, line |-> line]

(* One tick: pop an entry, run the prologue checks, run eval_expr.          *)
(* On every error the frame is left exactly as it was before the tick       *)
(* (values popped by the step are back, the entry is pending again): this   *)
(* is RestoreExact, the design statement of C07 / C08.                      *)
Tick ==
  /\ status = "running"
  /\ Top.E # <<>>
  /\ ticks' = ticks + 1
  /\ LET en == Last(Top.E)  f == [Top EXCEPT !.E = Front(@)] IN
     IF intr
     THEN /\ intr' = FALSE
          /\ Stopped("Interrupted", 0)
          /\ UNCHANGED <<pid, stack, out, result>>
     ELSE IF TickLimit # 0 /\ ticks' >= TickLimit
     THEN /\ Stopped("TickLimit", en.e.line)
          /\ UNCHANGED <<pid, stack, out, intr, result>>
     ELSE IF StackLimit # 0 /\ Len(stack) > StackLimit
     THEN /\ Stopped("StackLimit", en.e.line)
          /\ UNCHANGED <<pid, stack, out, intr, result>>
     ELSE LET r == StepExpr(f, en) IN
          IF r.err.kind # ""
          THEN /\ Stopped(r.err.kind, r.err.line)
               /\ out' = out \o r.out
               /\ UNCHANGED <<pid, stack, intr, result>>
          ELSE /\ stack' = IF r.call THEN Append(SetTop(r.f), r.nf) ELSE SetTop(r.f)
               /\ out' = out \o r.out
               /\ UNCHANGED <<pid, status, stop, intr, result>>

(* The running frame has nothing left: return to the caller (not a tick).   *)
FrameDone ==
  /\ status = "running"
  /\ Top.E = <<>>
  /\ Len(stack) > 1
  /\ LET v == TopV(Top) IN
     IF ~HasType(v, Top.rt)
     THEN \* the value is pushed back and no expression is re-pushed
          /\ Stopped("TypeError", Top.rline)
          /\ UNCHANGED <<pid, stack, out, ticks, intr, result>>
     ELSE /\ stack' = LET below == Front(stack) IN
                      [below EXCEPT ![Len(below)] = PushVIf(@, Top.uses, v)]
          /\ UNCHANGED <<pid, out, ticks, status, stop, intr, result>>

Finish ==
  /\ status = "running"
  /\ Top.E = <<>>
  /\ Len(stack) = 1
  /\ status' = "done"
  /\ result' = TopV(Top)
  /\ stack' = SetTop(PopV(Top))
  /\ UNCHANGED <<pid, out, ticks, stop, intr>>

MStep == Tick \/ FrameDone \/ Finish

(* ---- invariants about the machine itself ------------------------------- *)

\* Block balance at normal completion of the top-level program (C06 at the
\* level of the mechanism): every scope opened has been closed.  (A `return`
\* unwinds without closing scopes; its frame is discarded, so only programs
\* whose top level does not return are constrained.)
RECURSIVE HasTopReturn(_, _)
HasTopReturn(stmts, i) ==
  IF i > Len(stmts) THEN FALSE
  ELSE LET e == stmts[i] IN
       \/ e.k = "ret"
       \/ e.k \in {"if"} /\ (HasTopReturn(e.t, 1) \/ HasTopReturn(e.f, 1))
       \/ e.k \in {"while", "for", "ford", "try"} /\ HasTopReturn(e.b, 1)
       \/ e.k = "match" /\ \E j \in 1..Len(e.arms) : HasTopReturn(e.arms[j].b, 1)
       \/ HasTopReturn(stmts, i + 1)

TopBalanced ==
  (status = "done" /\ ~HasTopReturn(prog.main, 1)) =>
      (Len(Top.B) = 1 /\ Top.NB = EmptyBlk /\ Len(Top.V) = Len(prog.main))

TicksBounded == TickLimit # 0 => ticks <= TickLimit
=============================================================================
