------------------------------- MODULE LspPos -------------------------------
(* Byte offsets <-> LSP positions (line, UTF-16 column) and the range of a  *)
(* whole document (property C29).  Anchors: src/lsp.rs:176-195              *)
(* offset_to_lsp_position / garden_pos_to_lsp_range, :1268-1289             *)
(* whole_document_range, :1314-1337 line_char_to_offset.                    *)
(*                                                                          *)
(* A document is a sequence of code points.  Lines end at LF (10) only: CR  *)
(* is an ordinary character of its line.                                    *)
EXTENDS Integers, Sequences, FiniteSets, TLC

LF == 10
W8(c)  == IF c < 128 THEN 1 ELSE IF c < 2048 THEN 2 ELSE IF c < 65536 THEN 3 ELSE 4
W16(c) == IF c < 65536 THEN 1 ELSE 2

RECURSIVE Bytes(_, _)
\* byte offset of the boundary before character i+1 (i characters consumed)
Bytes(d, i) == IF i = 0 THEN 0 ELSE Bytes(d, i - 1) + W8(d[i])
ByteLen(d) == Bytes(d, Len(d))
Boundaries(d) == {Bytes(d, i) : i \in 0..Len(d)}
\* number of characters before byte offset o (o a boundary)
CharsBefore(d, o) == CHOOSE i \in 0..Len(d) : Bytes(d, i) = o

LinesBefore(d, i) == Cardinality({j \in 1..i : d[j] = LF})
\* index of the first character of the line containing boundary i (characters 1..i consumed)
RECURSIVE LineStartIdx(_, _)
LineStartIdx(d, i) == IF i = 0 THEN 0 ELSE IF d[i] = LF THEN i ELSE LineStartIdx(d, i - 1)
RECURSIVE Units(_, _, _)
\* UTF-16 units of characters from+1 .. to
Units(d, from, to) == IF to <= from THEN 0 ELSE Units(d, from, to - 1) + W16(d[to])

\* offset -> (line, character); offsets beyond the end clamp to the end
OffsetToPos(d, o) ==
  LET oc == IF o > ByteLen(d) THEN ByteLen(d) ELSE o
      i == CharsBefore(d, oc)
  IN [line |-> LinesBefore(d, i), character |-> Units(d, LineStartIdx(d, i), i)]

\* first character index (0-based count of consumed characters) of line number n, or -1
RECURSIVE NthLineStart(_, _, _)
NthLineStart(d, n, i) ==
  IF n = 0 THEN i
  ELSE IF i >= Len(d) THEN -1
  ELSE IF d[i + 1] = LF THEN NthLineStart(d, n - 1, i + 1) ELSE NthLineStart(d, n, i + 1)
RECURSIVE Walk(_, _, _, _)
\* advance from character index i while fewer than `want` units have been passed and the line goes on
Walk(d, i, units, want) ==
  IF i >= Len(d) \/ units >= want \/ d[i + 1] = LF THEN i
  ELSE Walk(d, i + 1, units + W16(d[i + 1]), want)
\* (line, character) -> byte offset, clamped to the line end / document end; a
\* position inside a surrogate pair resolves to the boundary after the pair
PosToOffset(d, line, character) ==
  LET s == NthLineStart(d, line, 0) IN
  IF s = -1 THEN ByteLen(d) ELSE Bytes(d, Walk(d, s, 0, character))

\* the range covering the whole document: from (0, 0) to the position of its end
WholeRange(d) == [start |-> [line |-> 0, character |-> 0], end |-> OffsetToPos(d, ByteLen(d))]

(* ------------------------------------------------------------- properties *)
RoundTrip(d) == \A o \in Boundaries(d) :
                  LET p == OffsetToPos(d, o) IN PosToOffset(d, p.line, p.character) = o
WholeCovers(d) == LET r == WholeRange(d) IN PosToOffset(d, r.end.line, r.end.character) = ByteLen(d)
ClampMonotone(d) ==
  \A l \in 0..(LinesBefore(d, Len(d)) + 1) : \A c1, c2 \in 0..(Len(d) + 2) :
     c1 <= c2 => PosToOffset(d, l, c1) <= PosToOffset(d, l, c2)
OnBoundary(d) ==
  \A l \in 0..(LinesBefore(d, Len(d)) + 1) : \A c \in 0..(2 * Len(d) + 2) : PosToOffset(d, l, c) \in Boundaries(d)
=============================================================================
