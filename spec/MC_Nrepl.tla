------------------------------ MODULE MC_Nrepl ------------------------------
(* Exhaustive exploration of Nrepl.tla for a client that sends one of a     *)
(* few request scripts (each request at any moment, in order): all          *)
(* interleavings of reader, workers, flushers and writer.                   *)
EXTENDS Nrepl

VARIABLES scen, sent
MCPool == <<"s1", "s2">>

P  == <<[k |-> "out", t |-> "a"], [k |-> "out", t |-> "b"], [k |-> "val"]>>
PE == <<[k |-> "out", t |-> "o"], [k |-> "err", t |-> "e"], [k |-> "out", t |-> "p"], [k |-> "val"]>>
X  == <<[k |-> "out", t |-> "x"], [k |-> "error"]>>
L  == <<[k |-> "loop"]>>
LP == <<[k |-> "loopout", t |-> "t"]>>
V  == <<[k |-> "val"]>>
Ev(id, s, sc) == [op |-> "eval", id |-> id, session |-> s, script |-> sc]
Op(op, id, s) == [op |-> op, id |-> id, session |-> s, script |-> <<>>]

Scenarios == <<
  <<Op("clone", "c1", None), Ev("e1", "s1", P), Ev("e2", "s1", PE)>>,
  <<Op("clone", "c1", None), Ev("e1", "s1", L), Op("interrupt", "i1", "s1"), Ev("e2", "s1", V)>>,
  <<Op("clone", "c1", None), Op("interrupt", "i0", "s1"), Ev("e1", "s1", P)>>,
  <<Op("clone", "c1", None), Ev("e1", "s1", LP), Op("interrupt", "i1", "s1")>>,
  <<Op("clone", "c1", None), Op("clone", "c2", None), Ev("e1", "s1", LP), Ev("e2", "s2", X), Op("close", "k1", "s1")>>,
  <<Op("clone", "c1", None), Ev("e1", "s1", X), Ev("e9", "s2", V), Op("frob", "u1", "s1"), Op("close", "k1", "s1"), Ev("e3", "s1", V)>>,
  <<Op("clone", "c1", None), Ev("e1", "s1", L), Ev("e2", "s1", P), Op("interrupt", "i1", "s1"), Op("interrupt", "i2", "s1")>>
>>

MCInit == Init /\ scen \in 1..Len(Scenarios) /\ sent = 0
Send ==
  /\ sent < Len(Scenarios[scen])
  /\ ClientSend(Scenarios[scen][sent + 1])
  /\ sent' = sent + 1
  /\ UNCHANGED scen
MCNext == Send \/ (ServerStep /\ UNCHANGED <<scen, sent>>)

\* loops print forever: bound what may accumulate
Bounded == \A s \in Sessions : Len(buf[s].out) <= 2 /\ \A id \in DOMAIN printed : Len(printed[id].out) <= 4

\* liveness is checked without a state constraint, so only on the scenarios whose
\* state space is finite by itself (no printing loop)
MCInitLive == Init /\ scen \in {1, 2, 3, 6, 7} /\ sent = 0
MCSpec == MCInitLive /\ [][MCNext]_<<vars, scen, sent>>
          /\ WF_<<vars, scen, sent>>(Send) /\ WF_vars(Reader) /\ WF_vars(Writer)
          /\ \A s \in Sessions : WF_vars(WorkerDequeue(s)) /\ WF_vars(WorkerResetFlag(s)) /\ WF_vars(WorkerStep(s))
                                 /\ WF_vars(WorkerStopFlusher(s)) /\ WF_vars(WorkerFinalDrainOut(s)) /\ WF_vars(WorkerFinalDrainErr(s))
                                 /\ WF_vars(WorkerReplyText(s)) /\ WF_vars(WorkerReplyDone(s))

\* C30 liveness on the scenarios whose loops are interrupted or closed: every request gets its done
Ids(sc) == {sc[i].id : i \in 1..Len(sc)}
AllDone == \A id \in Ids(Scenarios[scen]) : DoneIdx(id) # {}
EventuallyAllDone == (scen \in {1, 3, 6}) => <>[]AllDone
\* C31: an interrupt (or close) handled while the session's eval is RUNNING stops it.
\* (One handled before the worker has reset the flag -- the eval still queued or just
\* dequeued -- is, by design, wiped like an interrupt of an idle session.)
InterruptStops == \A s \in Sessions : (intrSeen[s] /\ wk[s].st = "running") ~> (wk[s].st # "running")
=============================================================================
