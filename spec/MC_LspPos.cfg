CONSTANTS
  MaxLen = 3
  Mode = "all"
INIT Init
NEXT Next
INVARIANT Props
INVARIANT Emit
CHECK_DEADLOCK FALSE
