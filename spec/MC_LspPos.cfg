CONSTANTS
  MaxLen = 3
INIT Init
NEXT Next
INVARIANT Props
INVARIANT Emit
CHECK_DEADLOCK FALSE
