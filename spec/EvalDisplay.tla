---------------------------- MODULE EvalDisplay ----------------------------
(* Evaluate Disp on the values, and VEq on the pairs, of the ndjson file    *)
(* named by CASES: {id, v} -> TEXT line;  {id, a, b} -> EQ line.            *)
EXTENDS Display, Json, IOUtils
Cases == ndJsonDeserialize(IOEnv.CASES)
VARIABLES i, done
Init == i = 0 /\ done = FALSE
Pick == i = 0 /\ i' \in 1..Len(Cases) /\ done' = FALSE
Evaluate ==
  /\ i > 0 /\ ~done
  /\ LET c == Cases[i] IN
     IF "v" \in DOMAIN c
     THEN PrintT(<<"TEXT", ToJson([id |-> c.id, text |-> Disp(c.v)])>>)
     ELSE PrintT(<<"EQ", ToJson([id |-> c.id, eq |-> VEq(c.a, c.b)])>>)
  /\ done' = TRUE /\ i' = i
Next == Pick \/ Evaluate
=============================================================================
