CONSTANTS
  Mode = "all"
  MaxLen = 3
INIT Init
NEXT Next
INVARIANT Laws
INVARIANT Emit
CHECK_DEADLOCK FALSE
