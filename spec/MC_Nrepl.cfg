CONSTANTS
  SessionPool <- MCPool
INIT MCInit
NEXT MCNext
CONSTRAINT Bounded
INVARIANT AtMostOneDone
INVARIANT DoneIsLast
INVARIANT OutputComplete
INVARIANT InterruptedOnlyIfAsked
CHECK_DEADLOCK FALSE
