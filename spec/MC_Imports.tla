----------------------------- MODULE MC_Imports -----------------------------
(* Every project over Files x Names (definitions none / private / public,   *)
(* imports none / plain / alias including self imports and cycles, imports  *)
(* before or after the definitions): one PROJECT line with what the         *)
(* property states (resU, resQ) and what the loader model predicts          *)
(* (loadU, loadQ) for every root, and whether the two agree.                *)
EXTENDS Imports, Json
CONSTANT Restrict      \* TRUE: no self imports, imports always first (keeps three files enumerable)
VARIABLE proj
CONSTANT Redefine      \* TRUE: a name may also be defined twice in a file with different visibility
DefKinds == IF Redefine THEN {"none", "private", "public", "pubpriv", "privpub"} ELSE {"none", "private", "public"}
FileCfg == [defs : [Names -> DefKinds], imps : [Files -> {"none", "plain", "alias"}],
            importsFirst : IF Restrict THEN {TRUE} ELSE BOOLEAN]
Init == /\ proj \in [Files -> FileCfg]
        /\ Restrict => \A f \in Files : proj[f].imps[f] = "none"
Next == UNCHANGED proj
Terminates == \A r \in Files : Load(proj, r).seen \subseteq Files
Table(r) ==
  LET st == Load(proj, r) IN
  [loaded |-> Loaded(proj, r),
   resU  |-> [f \in Files |-> {n \in Names : ResU(proj, f, n)}],
   resQ  |-> [f \in Files |-> {<<g, n>> \in Files \X Names : ResQ(proj, f, g, n)}],
   loadU |-> [f \in Files |-> {n \in Names : ReachU(st, f, n)}],
   loadQ |-> [f \in Files |-> {<<g, n>> \in Files \X Names : ReachQ(st, f, g, n)}],
   rootAgrees |-> RootAgrees(proj, r), innerAgrees |-> InnerAgrees(proj, r)]
Emit == PrintT(<<"PROJECT", ToJson([proj |-> proj, roots |-> [r \in Files |-> Table(r)]])>>)
=============================================================================
