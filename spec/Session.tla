------------------------------ MODULE Session ------------------------------
(* The interactive session around the evaluator (anchors:                   *)
(* src/json_session.rs:564-770, src/commands.rs, src/env.rs:65-77):         *)
(* an evaluation can stop (error, interrupt, limit) and the user can        *)
(* :resume it, :abort it, or be interrupted again.  The interrupt flag is   *)
(* set by the environment (reader thread / Ctrl-C) at any moment.           *)
(*                                                                          *)
(* Properties stated here:                                                  *)
(*   C07 ResumeRepeatsError  resuming after an error stops again with the   *)
(*       same error at the same place, any number of times                  *)
(*   C08 InterruptInvisible  whatever the placement of interrupts, the      *)
(*       finished evaluation printed and returned what Ref says             *)
(*   C10 AbortIsClean        after :abort nothing of the evaluation is left *)
EXTENDS Machine

CONSTANTS MaxInterrupts, MaxResumes

VARIABLES nintr,      \* interrupts injected so far
          nres,       \* resumes after an error so far
          firstErr,   \* the first error this evaluation stopped with
          aborted

svars == <<mvars, nintr, nres, firstErr, aborted>>

SInit(i) ==
  /\ MInit(i)
  /\ nintr = 0 /\ nres = 0 /\ firstErr = NoStop /\ aborted = FALSE

Step ==
  /\ ~aborted
  /\ MStep
  /\ firstErr' = IF status' = "stopped" /\ stop'.kind # "Interrupted" /\ firstErr.kind = ""
                 THEN stop' ELSE firstErr
  /\ UNCHANGED <<nintr, nres, aborted>>

\* interrupt request / Ctrl-C: may arrive at any time, also while stopped
SetInterrupt ==
  /\ ~aborted
  /\ status \in {"running", "stopped"}
  /\ nintr < MaxInterrupts
  /\ intr' = TRUE
  /\ nintr' = nintr + 1
  /\ UNCHANGED <<pid, stack, out, ticks, status, stop, result, nres, firstErr, aborted>>

\* :resume  (json_session.rs: EvalAction::Resume -> eval again)
Resume ==
  /\ ~aborted
  /\ status = "stopped"
  /\ stop.kind = "Interrupted" \/ nres < MaxResumes
  /\ status' = "running"
  /\ nres' = IF stop.kind = "Interrupted" THEN nres ELSE nres + 1
  /\ UNCHANGED <<pid, stack, out, ticks, stop, intr, result, nintr, firstErr, aborted>>

\* :abort  (Stack::pop_to_toplevel)
Abort ==
  /\ ~aborted
  /\ status = "stopped"
  /\ stack' = <<[stack[1] EXCEPT !.E = <<>>, !.V = SubSeq(@, 1, 1),
                                 !.B = SubSeq(@, 1, 1), !.NB = EmptyBlk]>>
  /\ aborted' = TRUE
  /\ UNCHANGED <<pid, out, ticks, status, stop, intr, result, nintr, nres, firstErr>>

SNext == Step \/ SetInterrupt \/ Resume \/ Abort

(* C07: an error, once reported, is reported again identically after every  *)
(* resume (interrupts in between do not count as a different error).        *)
ResumeRepeatsError ==
  (status = "stopped" /\ stop.kind # "Interrupted" /\ firstErr.kind # "") => stop = firstErr

(* C10 *)
AbortIsClean ==
  aborted => /\ Len(stack) = 1
             /\ stack[1].E = <<>>
             /\ Len(stack[1].V) = 1
             /\ Len(stack[1].B) = 1
             /\ stack[1].NB = EmptyBlk
=============================================================================
