------------------------------- MODULE Types -------------------------------
(* Garden's gradual types, the subtype relation and the join used when the  *)
(* checker combines types (properties C14, C15).  Anchors:                  *)
(* src/garden_type.rs:464-561 is_subtype, src/checks/type_checker.rs        *)
(* :2944-3017 unify / unify_all.                                            *)
(*                                                                          *)
(* Types (records, kind field k):                                           *)
(*   AnyT (top)   NoValueT (bottom)   Param(name)                             *)
(*   User(name, args)     nominal, covariant in its arguments               *)
(*   Tuple(args)          covariant, same arity                             *)
(*   Fun(params, ret)     contravariant in parameters, covariant in result  *)
(* Error types are outside the relation (the property excludes them).       *)
EXTENDS Integers, Sequences, FiniteSets, TLC

AnyT      == [k |-> "Any"]
NoValueT  == [k |-> "NoValue"]
Param(n) == [k |-> "Param", name |-> n]
User(n, args) == [k |-> "User", name |-> n, args |-> args]
Tuple(args)   == [k |-> "Tuple", args |-> args]
Fun(ps, r)    == [k |-> "Fun", params |-> ps, ret |-> r]
NoJoin == [k |-> "NoJoin"]

RECURSIVE Sub(_, _)
Sub(a, b) ==
  IF b.k = "Any" THEN TRUE
  ELSE IF a.k = "NoValue" THEN TRUE
  ELSE CASE a.k = "Param" -> b.k = "Param" /\ a.name = b.name
         [] a.k = "Tuple" -> /\ b.k = "Tuple" /\ Len(a.args) = Len(b.args)
                             /\ \A i \in 1..Len(a.args) : Sub(a.args[i], b.args[i])
         [] a.k = "Fun"   -> /\ b.k = "Fun" /\ Len(a.params) = Len(b.params)
                             /\ \A i \in 1..Len(a.params) : Sub(b.params[i], a.params[i])
                             /\ Sub(a.ret, b.ret)
         [] a.k = "User"  -> /\ b.k = "User" /\ a.name = b.name /\ Len(a.args) = Len(b.args)
                             /\ \A i \in 1..Len(a.args) : Sub(a.args[i], b.args[i])
         [] OTHER -> FALSE     \* AnyT is only below AnyT

RECURSIVE Join(_, _)
RECURSIVE JoinArgs(_, _, _)
JoinArgs(xs, ys, i) ==
  IF i > Len(xs) THEN <<>>
  ELSE LET j == Join(xs[i], ys[i])  rest == JoinArgs(xs, ys, i + 1) IN
       IF j = NoJoin \/ rest = <<NoJoin>> THEN <<NoJoin>> ELSE <<j>> \o rest
\* the combined type the checker reports for two types, or NoJoin
Join(a, b) ==
  IF a.k = "Any" \/ b.k = "Any" THEN AnyT
  ELSE IF a.k = "NoValue" THEN b
  ELSE IF b.k = "NoValue" THEN a
  ELSE IF a = b THEN a
  ELSE IF a.k = "User" /\ b.k = "User" /\ a.name = b.name /\ Len(a.args) = Len(b.args)
       THEN LET js == JoinArgs(a.args, b.args, 1) IN
            IF js = <<NoJoin>> THEN NoJoin ELSE User(a.name, js)
       ELSE NoJoin

RECURSIVE JoinAll(_, _, _)
\* folding the join over a sequence, as unify_all does, starting from NoValueT
JoinAll(ts, i, acc) ==
  IF acc = NoJoin THEN NoJoin
  ELSE IF i > Len(ts) THEN acc ELSE JoinAll(ts, i + 1, Join(acc, ts[i]))

(* ------------------------------------------------------- bounded families *)
Leaves == {AnyT, NoValueT, User("Int", <<>>), User("String", <<>>), Param("T")}
RECURSIVE Full(_)
Full(d) ==
  IF d = 0 THEN Leaves
  ELSE LET S == Full(d - 1) IN
       S \cup {User("List", <<a>>) : a \in S} \cup {User("Option", <<a>>) : a \in S}
         \cup {User("Pair", <<a, b>>) : a \in S, b \in S}
         \cup {Tuple(<<>>)} \cup {Tuple(<<a>>) : a \in S} \cup {Tuple(<<a, b>>) : a \in S, b \in S}
         \cup {Fun(<<>>, r) : r \in S} \cup {Fun(<<a>>, r) : a \in S, r \in S}
RECURSIVE Reduced(_)
Reduced(d) ==
  IF d = 0 THEN {AnyT, NoValueT, User("Int", <<>>), Param("T")}
  ELSE LET S == Reduced(d - 1) IN
       S \cup {User("List", <<a>>) : a \in S} \cup {Fun(<<a>>, r) : a \in S, r \in S} \cup {Tuple(<<a, b>>) : a \in S, b \in S}

(* ------------------------------------------------------------------ laws *)
Reflexive(a) == Sub(a, a)
TopBottom(a) == Sub(a, AnyT) /\ Sub(NoValueT, a)
Transitive(a, b, c) == (Sub(a, b) /\ Sub(b, c)) => Sub(a, c)
\* documented variance, stated on the constructors
Variance(a, b) ==
  /\ Sub(User("List", <<a>>), User("List", <<b>>)) = Sub(a, b)
  /\ Sub(Tuple(<<a, User("Int", <<>>)>>), Tuple(<<b, User("Int", <<>>)>>)) = Sub(a, b)
  /\ Sub(Fun(<<a>>, User("Int", <<>>)), Fun(<<b>>, User("Int", <<>>))) = Sub(b, a)
  /\ Sub(Fun(<<>>, a), Fun(<<>>, b)) = Sub(a, b)
\* C15: the join is an upper bound, and joining equal types changes nothing
JoinUpper(a, b) == LET j == Join(a, b) IN j # NoJoin => (Sub(a, j) /\ Sub(b, j))
JoinIdem(a) == Join(a, a) = a
JoinAllUpper(ts) == LET j == JoinAll(ts, 1, NoValueT) IN j # NoJoin => \A i \in 1..Len(ts) : Sub(ts[i], j)
=============================================================================
