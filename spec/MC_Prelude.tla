----------------------------- MODULE MC_Prelude -----------------------------
(* Enumerates the arguments of the prelude functions of one Group, checks   *)
(* the documentation's laws on them and prints one CALL line per call with  *)
(* the result Prelude.tla defines.                                          *)
EXTENDS Prelude, Json
CONSTANTS MaxLen, Group
Alpha == {"a", "b", "E", SP, NL}
Strs(n) == UNION {[1..k -> Alpha] : k \in 0..n}
Needles == UNION {[1..k -> {"a", "b", "E", SP}] : k \in 0..2}
Afters == {<<>>, <<"b">>, <<"a", "a">>, <<"E">>}
Ints == {-2, -1, 0, 1, 2, 3, 4, 99}
Lists == UNION {[1..k -> {-1, 0, 2, 3}] : k \in 0..3}
StrLists == UNION {[1..k -> Strs(1)] : k \in 0..3}
Call(f, a) == [f |-> f, a |-> a]

Calls ==
  CASE Group = "str1" -> {Call(f, <<s>>) : f \in {"trim_left", "trim_right", "trim", "chars", "len", "lines"}, s \in Strs(MaxLen)}
    [] Group = "str2" -> {Call(f, <<s, n>>) : f \in {"starts_with", "ends_with", "contains", "index_of", "split", "split_once", "strip_prefix", "strip_suffix"},
                                               s \in Strs(MaxLen), n \in Needles}
    [] Group = "overlap" -> \* longer strings over two letters: needles that overlap themselves and their own prefixes
         LET S2(n) == UNION {[1..k -> {"a", "b"}] : k \in 0..n} IN
         {Call(f, <<s, n>>) : f \in {"contains", "index_of", "split", "split_once", "starts_with", "ends_with", "strip_prefix", "strip_suffix"},
                              s \in S2(MaxLen + 3), n \in S2(3)}
         \cup {Call("replace", <<s, b, a>>) : s \in S2(MaxLen + 2), b \in S2(2) \ {<<>>}, a \in {<<>>, <<"a">>, <<"b", "a">>}}
    [] Group = "replace" -> {Call("replace", <<s, b, a>>) : s \in Strs(MaxLen), b \in Needles, a \in Afters}
    [] Group = "substring" -> {Call("substring", <<s, i, j>>) : s \in Strs(MaxLen), i \in Ints, j \in Ints}
    [] Group = "join" -> {Call("join", <<sep, items>>) : sep \in Strs(1), items \in StrLists}
    [] Group = "list" -> {Call(f, <<l>>) : f \in {"first", "last", "enumerate", "sort_nums", "list_len"}, l \in Lists}
                         \cup {Call(f, <<l, i>>) : f \in {"get", "list_contains", "list_index_of"}, l \in Lists, i \in Ints}
                         \cup {Call("slice", <<l, i, j>>) : l \in Lists, i \in Ints, j \in Ints}
                         \cup {Call("concat", <<l, m>>) : l \in Lists, m \in Lists}
                         \cup {Call("map", <<l, f>>) : l \in Lists, f \in {"inc", "dbl", "neg"}}
                         \cup {Call("filter", <<l, p>>) : l \in Lists, p \in {"pos", "even", "all"}}
                         \cup {Call(f, <<i, j>>) : f \in {"range", "min", "max"}, i \in Ints \ {99}, j \in Ints \ {99}}

SL(x) == L([i \in 1..Len(x) |-> S(x[i])])      \* list of strings
IL(x) == L([i \in 1..Len(x) |-> I(x[i])])      \* list of integers
Lift(o) == IF o.t = "some" THEN Some(I(o.v)) ELSE o

Result(c) ==
  LET a == c.a IN
  CASE c.f = "trim_left" -> S(TrimLeft(a[1])) [] c.f = "trim_right" -> S(TrimRight(a[1])) [] c.f = "trim" -> S(Trim(a[1]))
    [] c.f = "chars" -> SL(Chars(a[1])) [] c.f = "len" -> I(Len(a[1])) [] c.f = "lines" -> SL(Lines(a[1]))
    [] c.f = "starts_with" -> B(StartsWith(a[1], a[2])) [] c.f = "ends_with" -> B(EndsWith(a[1], a[2]))
    [] c.f = "contains" -> B(Contains(a[1], a[2])) [] c.f = "index_of" -> IndexOf(a[1], a[2])
    [] c.f = "split" -> SL(Split(a[1], a[2])) [] c.f = "split_once" -> SplitOnce(a[1], a[2])
    [] c.f = "strip_prefix" -> S(StripPrefix(a[1], a[2])) [] c.f = "strip_suffix" -> S(StripSuffix(a[1], a[2]))
    [] c.f = "replace" -> S(Replace(a[1], a[2], a[3]))
    [] c.f = "substring" -> Substring(a[1], a[2], a[3])
    [] c.f = "join" -> S(JoinWith(a[2], a[1]))
    [] c.f = "first" -> Lift(First(a[1])) [] c.f = "last" -> Lift(Last(a[1])) [] c.f = "get" -> Lift(Get(a[1], a[2]))
    [] c.f = "enumerate" -> L(Enumerate(IL(a[1]).v)) [] c.f = "sort_nums" -> IL(SortNums(a[1])) [] c.f = "list_len" -> I(Len(a[1]))
    [] c.f = "list_contains" -> B(ListContains(a[1], a[2])) [] c.f = "list_index_of" -> ListIndexOf(a[1], a[2])
    [] c.f = "slice" -> IL(Slice(a[1], a[2], a[3])) [] c.f = "concat" -> IL(Concat(a[1], a[2]))
    [] c.f = "map" -> IL(Map(a[1], a[2])) [] c.f = "filter" -> IL(Filter(a[1], a[2]))
    [] c.f = "range" -> IL(Range(a[1], a[2])) [] c.f = "min" -> I(Min(a[1], a[2])) [] c.f = "max" -> I(Max(a[1], a[2]))

VARIABLE c
Init == c \in Calls
Next == UNCHANGED c
Laws ==
  /\ c.f = "split" => SplitLaws(c.a[1], c.a[2]) /\ IndexLaws(c.a[1], c.a[2])
  /\ c.f = "replace" => ReplaceLaws(c.a[1], c.a[2])
  /\ c.f = "trim" => TrimLaws(c.a[1])
  /\ c.f = "sort_nums" => SortLaws(c.a[1])
  /\ c.f = "slice" => SliceLaws(c.a[1], c.a[2], c.a[3])
Emit == PrintT(<<"CALL", ToJson([f |-> c.f, a |-> c.a, r |-> Result(c)])>>)
=============================================================================
