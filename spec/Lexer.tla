------------------------------- MODULE Lexer -------------------------------
(* The lexer (src/parser/lex.rs:98-395 lex_between) over character classes, *)
(* and the position arithmetic every reported source position must obey    *)
(* (properties C01 and C23).                                               *)
(*                                                                          *)
(* A source text is a sequence of character classes.  Each class stands    *)
(* for one concrete character (tools/props/c01.py CHARS) chosen so that    *)
(* every branch of the lexer and every UTF-8 width is represented:         *)
(*   sp nl cr nbsp   whitespace (nbsp = U+00A0, two bytes)                  *)
(*   a us d          symbol / number constituents                          *)
(*   minus dot plus eq star slash lparen   operators and punctuation       *)
(*   quote bslash    string delimiters and escapes                         *)
(*   hash            only meaningful as a shebang at offset 0              *)
(*   e2 e3 e4        characters of 2, 3 and 4 bytes no rule recognises     *)
(*                                                                          *)
(* Indices are 1-based character indices, spans are [s, e).  PosTable maps *)
(* a character index to (byte offset, line, column): line = number of nl   *)
(* before it, column = byte distance to the start of that line.  This is   *)
(* the definition C23 states; the lexer's tokens, comments and errors are  *)
(* expected to carry exactly PosTable[s] and PosTable[e].                  *)
EXTENDS Integers, Sequences, FiniteSets, TLC

Classes == <<"sp", "nl", "cr", "nbsp", "a", "us", "d", "minus", "dot", "plus", "eq", "star", "slash",
             "quote", "bslash", "lparen", "hash", "e2", "e3", "e4">>

Width(c) == CASE c \in {"nbsp", "e2"} -> 2 [] c = "e3" -> 3 [] c = "e4" -> 4 [] OTHER -> 1
IsWs(c)  == c \in {"sp", "nl", "cr", "nbsp"}
NumTail  == {"d", "us"}
SymStart == {"a", "us"}
SymTail  == {"a", "us", "d"}
TwoChar  == {<<"eq", "eq">>, <<"plus", "eq">>, <<"minus", "eq">>, <<"star", "star">>,
             <<"plus", "dot">>, <<"minus", "dot">>, <<"star", "dot">>, <<"slash", "dot">>}
OneChar  == {"plus", "minus", "star", "slash", "eq", "dot", "lparen"}

At(src, i) == IF i >= 1 /\ i <= Len(src) THEN src[i] ELSE "eof"

(* ---- positions --------------------------------------------------------- *)
RECURSIVE PosFrom(_, _, _, _, _, _)
PosFrom(src, i, off, line, col, acc) ==
  LET here == Append(acc, [off |-> off, line |-> line, col |-> col]) IN
  IF i > Len(src) THEN here
  ELSE IF src[i] = "nl" THEN PosFrom(src, i + 1, off + 1, line + 1, 0, here)
  ELSE PosFrom(src, i + 1, off + Width(src[i]), line, col + Width(src[i]), here)

\* PosTable(src)[k], k \in 1..Len(src)+1: the position of the boundary before character k
PosTable(src) == PosFrom(src, 1, 0, 0, 0, <<>>)

(* ---- scanning helpers -------------------------------------------------- *)
RECURSIVE SkipWhile(_, _, _)
SkipWhile(src, i, S) == IF i <= Len(src) /\ src[i] \in S THEN SkipWhile(src, i + 1, S) ELSE i

RECURSIVE FindNl(_, _)
FindNl(src, i) == IF i > Len(src) \/ src[i] = "nl" THEN i ELSE FindNl(src, i + 1)

\* a string literal opened at k-1: <<closed, end>>; a backslash takes the next character with it
RECURSIVE StrEnd(_, _)
StrEnd(src, k) ==
  IF k > Len(src) THEN <<FALSE, Len(src) + 1>>
  ELSE IF src[k] = "bslash" THEN (IF k + 1 > Len(src) THEN <<FALSE, Len(src) + 1>> ELSE StrEnd(src, k + 2))
  ELSE IF src[k] = "quote" THEN <<TRUE, k + 1>>
  ELSE StrEnd(src, k + 1)

NumStart(src, i) == IF At(src, i) = "minus" THEN i + 1 ELSE i
IsNum(src, i)    == At(src, NumStart(src, i)) = "d"
IntEnd(src, i)   == SkipWhile(src, NumStart(src, i) + 1, NumTail)
IsFloat(src, i)  == IsNum(src, i) /\ At(src, IntEnd(src, i)) = "dot" /\ At(src, IntEnd(src, i) + 1) = "d"
FloatEnd(src, i) == SkipWhile(src, IntEnd(src, i) + 2, NumTail)

(* ---- the lexer --------------------------------------------------------- *)
Tok(s, e, k) == [s |-> s, e |-> e, kind |-> k]

RECURSIVE LexFrom(_, _, _, _, _)
LexFrom(src, i, toks, coms, errs) ==
  IF i > Len(src) THEN [toks |-> toks, coms |-> coms, errs |-> errs]
  ELSE LET c == src[i] IN
    IF c = "slash" /\ At(src, i + 1) = "slash"
    THEN \* a comment runs to the end of the line; its position excludes the newline, which is consumed
         LET j == FindNl(src, i) IN
         LexFrom(src, IF j <= Len(src) THEN j + 1 ELSE j, toks,
                 Append(coms, [s |-> i, e |-> j, before |-> Len(toks) + 1]), errs)
    ELSE IF IsWs(c) THEN LexFrom(src, i + 1, toks, coms, errs)
    ELSE IF <<c, At(src, i + 1)>> \in TwoChar THEN LexFrom(src, i + 2, Append(toks, Tok(i, i + 2, "op")), coms, errs)
    ELSE IF IsFloat(src, i) THEN LexFrom(src, FloatEnd(src, i), Append(toks, Tok(i, FloatEnd(src, i), "float")), coms, errs)
    ELSE IF IsNum(src, i) THEN LexFrom(src, IntEnd(src, i), Append(toks, Tok(i, IntEnd(src, i), "int")), coms, errs)
    ELSE IF c \in OneChar THEN LexFrom(src, i + 1, Append(toks, Tok(i, i + 1, "op")), coms, errs)
    ELSE IF c = "quote"
    THEN LET r == StrEnd(src, i + 1) IN
         IF r[1] THEN LexFrom(src, r[2], Append(toks, Tok(i, r[2], "string")), coms, errs)
         ELSE \* unterminated: the token (and the error) stop at the end of the line
              LET e == FindNl(src, i) IN
              LexFrom(src, e, Append(toks, Tok(i, e, "unclosed")), coms, Append(errs, Tok(i, e, "unclosed")))
    ELSE IF c \in SymStart
    THEN LET e == SkipWhile(src, i + 1, SymTail) IN LexFrom(src, e, Append(toks, Tok(i, e, "symbol")), coms, errs)
    ELSE \* nothing recognises this character: one error, skip exactly that character
         LexFrom(src, i + 1, toks, coms, Append(errs, Tok(i, i + 1, "unrecognized")))

\* a `#` at offset 0 starts a shebang line, skipped up to (not including) its newline
Lex(src) == LexFrom(src, IF At(src, 1) = "hash" THEN FindNl(src, 1) ELSE 1, <<>>, <<>>, <<>>)

(* ---- laws (checked by MC_Lexer on every enumerated text) --------------- *)
\* C23: a reported position p = [start, end, line, col, end_line, end_col] is consistent with the text whose
\* table is t iff both offsets are character boundaries inside the text and each (line, column) pair is the
\* one the table gives for that offset -- in particular the end line is the line containing the end offset.
PosOK(t, p) ==
  /\ p.start <= p.end
  /\ \E i \in 1..Len(t) : t[i].off = p.start /\ t[i].line = p.line /\ t[i].col = p.col
  /\ \E j \in 1..Len(t) : t[j].off = p.end /\ t[j].line = p.end_line /\ t[j].col = p.end_col

\* tokens are non-empty, ordered, disjoint, and never contain a character the lexer skipped as unrecognised
TokensOrdered(src) ==
  LET r == Lex(src) IN
  /\ \A k \in 1..Len(r.toks) : r.toks[k].s < r.toks[k].e /\ r.toks[k].e <= Len(src) + 1
  /\ \A k \in 1..Len(r.toks) - 1 : r.toks[k].e <= r.toks[k + 1].s
\* the position table is monotone and consistent with itself
TableOK(src) ==
  LET t == PosTable(src) IN
  /\ Len(t) = Len(src) + 1
  /\ \A k \in 1..Len(src) : t[k + 1].off = t[k].off + Width(src[k])
  /\ \A k \in 1..Len(t) : t[k].col <= t[k].off /\ (t[k].line = 0 => t[k].col = t[k].off)
=============================================================================
