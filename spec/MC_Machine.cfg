CONSTANTS
  TickLimit = 0
  StackLimit = 0
  ProgOf <- MCProgOf
INIT Init
NEXT Next
CONSTRAINT Bounded
INVARIANT RefinesRef
INVARIANT TopBalanced
INVARIANT Report
CHECK_DEADLOCK FALSE
