------------------------------ MODULE Builtins ------------------------------
(* The table of built-in and prelude functions and methods (anchors:        *)
(* src/__prelude.gdn, src/__fs.gdn, src/__shell.gdn, src/eval.rs:2588-4498  *)
(* and 5185-6390): name, parameter kinds, effect class.  From the table     *)
(* TLC enumerates the CALL MATRIX: every entry called correctly, with each  *)
(* argument replaced by a value of every other kind, and with one argument  *)
(* too few / too many, together with what the language promises for it:     *)
(*                                                                          *)
(*   "error"           the call must end in a Garden-level error            *)
(*   "value_or_error"  the call yields a value or a Garden-level error      *)
(*   and in no case may the interpreter itself crash (C02); every "error"   *)
(*   must be reproduced identically by :resume (C07); entries whose effect  *)
(*   is fs / proc / stdin must be refused in the sandbox (C24).             *)
EXTENDS Integers, Sequences, TLC, Json

\* kinds of argument values the matrix draws from
Kinds == <<"Int", "IntMin", "IntMax", "String", "Bool", "Float", "Unit", "ListInt", "ListString",
           "Tuple", "Dict", "None", "Some", "Closure", "Path", "Struct">>

F(n, ns, ps, eff) == [n |-> n, ns |-> ns, recv |-> "", ps |-> ps, eff |-> eff]
M(n, recv, ps)    == [n |-> n, ns |-> "", recv |-> recv, ps |-> ps, eff |-> "pure"]
ME(n, recv, ps, eff) == [n |-> n, ns |-> "", recv |-> recv, ps |-> ps, eff |-> eff]

Funs == <<
  F("print", "", <<"String">>, "print"), F("println", "", <<"String">>, "print"),
  F("eprint", "", <<"String">>, "print"), F("eprintln", "", <<"String">>, "print"),
  F("string_repr", "", <<"Any">>, "pure"), F("throw", "", <<"String">>, "throw"),
  F("dbg", "", <<"Any">>, "print"), F("not", "", <<"Bool">>, "pure"),
  F("range", "", <<"Int", "Int">>, "pure"), F("sort_nums", "", <<"ListInt">>, "pure"),
  F("max", "", <<"Int", "Int">>, "pure"), F("min", "", <<"Int", "Int">>, "pure"),
  F("todo", "", <<>>, "throw"), F("shell_arguments", "", <<>>, "env"),
  F("read_line", "", <<>>, "stdin"),
  F("read_file", "fs", <<"Path">>, "fs"), F("read_file_bytes", "fs", <<"Path">>, "fs"),
  F("write_file", "fs", <<"String", "Path">>, "fs"), F("write_bytes", "fs", <<"ListInt", "Path">>, "fs"),
  F("copy_file", "fs", <<"Path", "Path">>, "fs"), F("remove_file", "fs", <<"Path">>, "fs"),
  F("list_directory", "fs", <<"Path">>, "fs"), F("working_directory", "fs", <<>>, "env"),
  F("set_working_directory", "fs", <<"Path">>, "env"), F("create_dir", "fs", <<"Path">>, "fs"),
  F("remove_dir", "fs", <<"Path">>, "fs"),
  F("run", "shell", <<"String", "ListString">>, "proc"), F("get_env", "shell", <<"String">>, "env"),
  F("is_tty", "shell", <<>>, "env"),
  F("int", "random", <<>>, "random"), F("choose", "random", <<"List">>, "random"),
  F("unixtime", "time", <<>>, "time")
>>

Methods == <<
  M("starts_with", "String", <<"String">>), M("ends_with", "String", <<"String">>),
  M("replace", "String", <<"String", "String">>), M("split_once", "String", <<"String">>),
  M("join", "String", <<"ListString">>), M("contains", "String", <<"String">>),
  M("trim_left", "String", <<>>), M("trim_right", "String", <<>>), M("trim", "String", <<>>),
  M("strip_suffix", "String", <<"String">>), M("strip_prefix", "String", <<"String">>),
  M("split", "String", <<"String">>), M("chars", "String", <<>>), M("len", "String", <<>>),
  M("lines", "String", <<>>), M("substring", "String", <<"Int", "Int">>),
  M("index_of", "String", <<"String">>), M("as_int", "String", <<>>),
  M("append", "ListInt", <<"Any">>), M("concat", "ListInt", <<"List">>),
  M("contains", "ListInt", <<"Any">>), M("get", "ListInt", <<"Int">>), M("len", "ListInt", <<>>),
  M("first", "ListInt", <<>>), M("last", "ListInt", <<>>), M("filter", "ListInt", <<"Closure">>),
  M("is_empty", "ListInt", <<>>), M("is_non_empty", "ListInt", <<>>), M("map", "ListInt", <<"Closure">>),
  M("index_of", "ListInt", <<"Any">>), M("slice", "ListInt", <<"Int", "Int">>),
  M("enumerate", "ListInt", <<>>),
  M("is_some", "Some", <<>>), M("is_none", "Some", <<>>), M("or_throw", "Some", <<>>),
  M("or_value", "Some", <<"Any">>), M("or_throw", "None", <<>>), M("or_value", "None", <<"Any">>),
  M("as_float", "Int", <<>>), M("floor", "Float", <<>>), M("ceil", "Float", <<>>),
  M("get", "Dict", <<"String">>), M("set", "Dict", <<"String", "Any">>), M("items", "Dict", <<>>),
  M("remove", "Dict", <<"String">>),
  M("parent", "Path", <<>>), M("join", "Path", <<"String">>), M("extension", "Path", <<>>),
  M("file_name", "Path", <<>>), M("set_extension", "Path", <<"String">>),
  ME("exists", "Path", <<>>, "fs"), ME("info", "Path", <<>>, "fs")
>>

\* Effects that sandboxed mode (playground-run, sandboxed-test) must refuse (C24)
Forbidden == {"fs", "proc", "stdin"}
\* In the sandbox a call with a forbidden effect never yields a value and never
\* has the effect: it ends the evaluation with the sandbox error (an ill-formed
\* call may be refused as ill-formed instead).
SandboxExpect(c) ==
  IF c.eff \in Forbidden
  THEN (IF c.expect = "error" THEN "sandbox_or_error" ELSE "sandbox")
  ELSE c.expect

\* Does a value of kind k satisfy a parameter of kind p?
Accepts(p, k) ==
  \/ p = "Any"
  \/ p = k
  \/ p = "Int" /\ k \in {"IntMin", "IntMax"}
  \/ p = "List" /\ k \in {"ListInt", "ListString"}

\* Kinds whose mismatch the implementation may legitimately not notice at the
\* call (element types of lists are checked lazily): the promise is weaker.
Fuzzy(p, k) ==
  \/ p \in {"ListInt", "ListString"} /\ k \in {"ListInt", "ListString"}
  \/ p = "Some" \/ p = "None"

DefaultArg(p) == IF p \in {"Any"} THEN "Int" ELSE IF p = "List" THEN "ListInt" ELSE p

Entries == Funs \o Methods

\* Declared parameter types of named functions are checked at the call;
\* those of methods are not (eval_method_call binds without check_param_types),
\* so a wrong-typed method argument fails later, inside the method, or not at all.
Expect(e, args) ==
  IF Len(args) # Len(e.ps) THEN "error"
  ELSE IF e.recv = "" /\ \E i \in 1..Len(args) : ~Accepts(e.ps[i], args[i]) /\ ~Fuzzy(e.ps[i], args[i]) THEN "error"
  ELSE "value_or_error"

Call(e, args) == [n |-> e.n, ns |-> e.ns, recv |-> e.recv, args |-> args, eff |-> e.eff,
                  expect |-> Expect(e, args)]

Defaults(e) == [i \in 1..Len(e.ps) |-> DefaultArg(e.ps[i])]

\* The matrix for one entry.
MatrixOf(e) ==
  LET d == Defaults(e) IN
  {Call(e, d)}
  \cup {Call(e, [d EXCEPT ![i] = Kinds[k]]) : i \in 1..Len(d), k \in 1..Len(Kinds)}
  \cup {Call(e, Append(d, "Int"))}
  \cup (IF Len(d) > 0 THEN {Call(e, SubSeq(d, 1, Len(d) - 1))} ELSE {})

(* State machine: one state per entry; the step prints the entry's matrix.  *)
VARIABLE i
Init == i = 0
Next == /\ i < Len(Entries)
        /\ i' = i + 1
        /\ \A c \in MatrixOf(Entries[i']) : PrintT(<<"CALL", ToJson(c)>>)

\* Sanity of the table itself (checked by TLC): a correct call is never
\* predicted to fail, and every method's receiver kind is a known kind.
TableSane ==
  \A j \in 1..Len(Entries) :
     /\ Expect(Entries[j], Defaults(Entries[j])) = "value_or_error"
     /\ Entries[j].recv = "" \/ \E k \in 1..Len(Kinds) : Kinds[k] = Entries[j].recv
=============================================================================
