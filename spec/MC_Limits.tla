----------------------------- MODULE MC_Limits -----------------------------
(* Machine.tla with the sandbox limits set: every behaviour of every        *)
(* program (diverging ones included) keeps ticks within the budget and      *)
(* stops -- value, error, TickLimit or StackLimit (C25).                    *)
EXTENDS Machine, Json, IOUtils
Progs == ndJsonDeserialize(IOEnv.PROGS)
MCProgOf(i) == Progs[i]
Init == \E i \in 1..Len(Progs) : MInit(i)
Next == MStep
Spec == Init /\ [][Next]_mvars /\ WF_mvars(Next)
Termination == <>(status # "running")
LimitsRespected == TicksBounded /\ (StackLimit # 0 => Len(stack) <= StackLimit + 1)
=============================================================================
