CONSTANTS
  SessionPool <- MCPool
SPECIFICATION MCSpec
PROPERTY EventuallyAllDone
PROPERTY InterruptStops
CHECK_DEADLOCK FALSE
