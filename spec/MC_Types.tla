------------------------------ MODULE MC_Types ------------------------------
(* Checks the laws of Types.tla on bounded families and prints the relation *)
(* so that the implementation's is_subtype / unify can be compared with it. *)
(*   Mode "pairs"    all pairs of Full(Depth): laws + one REL line per pair *)
(*   Mode "triples"  all triples of Reduced(Depth): transitivity, fold-join *)
(*   Mode "file"     the pairs of the ndjson file named by PAIRS            *)
EXTENDS Types, Json, IOUtils
CONSTANTS Mode, Depth
Pairs == IF Mode = "file" THEN ndJsonDeserialize(IOEnv.PAIRS) ELSE <<>>
VARIABLES a, b, c
Init ==
  CASE Mode = "pairs"   -> a \in Full(Depth) /\ b \in Full(Depth) /\ c = AnyT
    [] Mode = "triples" -> a \in Reduced(Depth) /\ b \in Reduced(Depth) /\ c \in Reduced(Depth)
    [] Mode = "file"    -> \E i \in 1..Len(Pairs) : a = Pairs[i].a /\ b = Pairs[i].b /\ c = AnyT
Next == UNCHANGED <<a, b, c>>
Laws ==
  /\ Reflexive(a) /\ TopBottom(a) /\ JoinIdem(a)
  /\ JoinUpper(a, b)
  /\ (Mode # "file" => Variance(a, b))
  /\ (Mode = "triples" => Transitive(a, b, c) /\ JoinAllUpper(<<a, b, c>>))
Emit == Mode = "triples" \/ PrintT(<<"REL", ToJson([a |-> a, b |-> b, ab |-> Sub(a, b), ba |-> Sub(b, a), join |-> Join(a, b)])>>)
=============================================================================
