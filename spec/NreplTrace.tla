----------------------------- MODULE NreplTrace -----------------------------
(* Trace validation for Nrepl.tla.  The client's log (ndjson, env TRACE) has *)
(* one event per line, in the client's real-time order:                      *)
(*   send  {op, id, session, script}  the client wrote a request             *)
(*   recv  {id, session, kind, text, status}  the client read a message      *)
(*   reset                           a new connection / scenario begins      *)
(*   end                             the client has waited for every request *)
(*                                   it sent to be answered and the line is  *)
(*                                   quiet: the server must have nothing     *)
(*                                   left to do (Quiescent)                  *)
(* Only these are logged; every server step (reader, workers, flushers) is   *)
(* silent and TLC searches for an interleaving that explains the log.  The   *)
(* writer step is exactly the delivery that a recv event observes.           *)
EXTENDS Nrepl, Json, IOUtils

TPool == <<"s1", "s2", "s3">>
Rec == ndJsonDeserialize(IOEnv.TRACE)
MaxChunk == atoi(IOEnv.MAXCHUNK)

VARIABLE l
tvars == <<vars, l>>

StatusSet(st) == {st[i] : i \in 1..Len(st)}

TInit == Init /\ l = 1 /\ TLCSet(1, 1)

TraceSend ==
  /\ l <= Len(Rec) /\ Rec[l].ev = "send"
  /\ ClientSend([op |-> Rec[l].op, id |-> Rec[l].id, session |-> Rec[l].session, script |-> Rec[l].script])
  /\ l' = l + 1

Matches(m, e) ==
  /\ m.id = e.id
  /\ m.kind = e.kind
  /\ m.text = e.text
  /\ m.status = StatusSet(e.status)
  /\ (m.kind = "newsession" \/ m.session = e.session)

\* the next message on the channel is delivered, and it is the one the client logged
TraceRecv ==
  /\ l <= Len(Rec) /\ Rec[l].ev = "recv"
  /\ chan # <<>>
  /\ Matches(Head(chan), Rec[l])
  /\ Writer
  /\ l' = l + 1

TraceReset ==
  /\ l <= Len(Rec) /\ Rec[l].ev = "reset"
  /\ inq' = <<>> /\ live' = {} /\ nclone' = 0
  /\ queue' = [s \in Sessions |-> <<>>]
  /\ flag' = [s \in Sessions |-> FALSE]
  /\ wk' = [s \in Sessions |-> IdleW]
  /\ buf' = [s \in Sessions |-> [out |-> "", err |-> ""]]
  /\ flusher' = [s \in Sessions |-> FALSE]
  /\ chan' = <<>> /\ wire' = <<>> /\ printed' = <<>>
  /\ intrSeen' = [s \in Sessions |-> FALSE]
  /\ l' = l + 1

\* Nothing is left to do: no request waits anywhere and every message has been delivered.  A session that
\* was closed may still be spinning in a loop nobody can interrupt any more (a close or interrupt handled
\* between dispatch and the worker's flag reset is wiped, by design), with whatever was queued behind it.
SpinsForever(s) == s \notin live /\ wk[s].st = "running" /\ ~flag[s] /\ wk[s].script[wk[s].pc].k \in {"loop", "loopout"}
Quiescent ==
  /\ inq = <<>> /\ chan = <<>>
  /\ \A s \in Sessions : SpinsForever(s) \/ (wk[s].st = "idle" /\ queue[s] = <<>> /\ ~flusher[s])
TraceEnd ==
  /\ l <= Len(Rec) /\ Rec[l].ev = "end"
  /\ Quiescent
  /\ l' = l + 1 /\ UNCHANGED vars

Silent ==
  /\ \/ Reader
     \/ \E s \in Sessions : \/ WorkerDequeue(s) \/ WorkerResetFlag(s) \/ WorkerStep(s) \/ FlushOut(s) \/ FlushErr(s)
                            \/ WorkerStopFlusher(s) \/ WorkerFinalDrainOut(s) \/ WorkerFinalDrainErr(s)
                            \/ WorkerReplyText(s) \/ WorkerReplyDone(s)
  /\ UNCHANGED l

\* (TLC's depth-first queue explores the successor generated last first: logged
\* events come last so that they are tried before further silent steps)
TraceNext == Silent \/ TraceEnd \/ TraceReset \/ TraceSend \/ TraceRecv

\* remember the longest explained prefix; bound what a printing loop may accumulate
Progress ==
  /\ (IF l > TLCGet(1) THEN TLCSet(1, l) ELSE TRUE)
  /\ \A s \in Sessions : Len(buf[s].out) <= MaxChunk /\ Len(buf[s].err) <= MaxChunk
  \* the channel is FIFO and every delivery is logged: its i-th message must be
  \* the i-th delivery still to come in the log (prunes dead ends at once)
  /\ LET upcoming == IF l <= Len(Rec) THEN Rec[l].nr ELSE <<>> IN
     /\ Len(chan) <= Len(upcoming)
     /\ \A i \in 1..Len(chan) : Matches(chan[i], Rec[upcoming[i]])

\* the invariants of the design hold along the explained behaviour too.  The wire
\* only grows by appending, so it is enough (and linear instead of quadratic) to
\* check the newest message against everything before it.
TraceInv ==
  wire = <<>> \/
  LET n == Len(wire)  m == wire[n] IN
  \* AtMostOneDone + DoneIsLast: nothing with this id may follow its done
  /\ m.id = None \/ \A i \in 1..(n - 1) : ~(IsDone(wire[i]) /\ wire[i].id = m.id)
  \* OutputComplete, at the moment the done arrives
  /\ (IsDone(m) /\ m.id \in DOMAIN printed) =>
       /\ Concat(wire, m.id, "out", 1) = printed[m.id].out
       /\ Concat(wire, m.id, "err", 1) = printed[m.id].err

Accepted ==
  IF TLCGet(1) = Len(Rec) + 1 THEN TRUE
  ELSE /\ PrintT(<<"UNMATCHED", ToJson([index |-> TLCGet(1), event |-> Rec[TLCGet(1)]])>>)
       /\ FALSE
=============================================================================
