INIT Init
NEXT Next
INVARIANT TableSane
CHECK_DEADLOCK FALSE
