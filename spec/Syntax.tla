------------------------------- MODULE Syntax -------------------------------
(* Garden's abstract syntax and its canonical concrete syntax (anchors:     *)
(* src/parser/ast.rs, src/parser.rs parse_expression / parse_definition /   *)
(* parse_block, src/parser/lex.rs token classes).                           *)
(*                                                                          *)
(*   Print(t)    the canonical source text (PrintProg)                       *)
(*   Sexp(t)     the tree as the parser's own AST in canonical S-expression *)
(*               form (constructor names of parser/ast.rs, positions and    *)
(*               ids removed) -- tools/rustdebug.py reduces the real        *)
(*               parser's dump to the same form                             *)
(*   LeftFold    the tree of an operator chain  x1 op1 x2 ... opn xn:       *)
(*               every operator has the same precedence and associates to   *)
(*               the left (C03)                                             *)
(*   ExprTrees(d), StmtTrees(d)   the bounded tree families (C33)           *)
(*                                                                          *)
(* Trees are records with a kind field k, the same shape as the JSON ASTs   *)
(* of tools/gen_prog.py, so TLC can also print generated programs.          *)
EXTENDS Integers, Sequences, TLC, FiniteSets

\* the 21 binary operators: token |-> AST constructor
OpName(op) ==
  CASE op = "+" -> "Add" [] op = "-" -> "Subtract" [] op = "*" -> "Multiply" [] op = "/" -> "Divide"
    [] op = "%" -> "Modulo" [] op = "**" -> "Exponent" [] op = "==" -> "Equal" [] op = "!=" -> "NotEqual"
    [] op = "<" -> "LessThan" [] op = "<=" -> "LessThanOrEqual" [] op = ">" -> "GreaterThan"
    [] op = ">=" -> "GreaterThanOrEqual" [] op = "&&" -> "And" [] op = "||" -> "Or" [] op = "^" -> "StringConcat"
    [] op = "+." -> "AddFloat" [] op = "-." -> "SubtractFloat" [] op = "*." -> "MultiplyFloat"
    [] op = "/." -> "DivideFloat" [] op = "&" -> "BitwiseAnd" [] op = "|" -> "BitwiseOr"
AllOps == <<"+", "-", "*", "/", "%", "**", "==", "!=", "<", "<=", ">", ">=", "&&", "||", "^",
            "+.", "-.", "*.", "/.", "&", "|">>

\* ---------------------------------------------------------------- strings
RECURSIVE EscFrom(_, _)
EscFrom(s, i) ==
  IF i > Len(s) THEN ""
  ELSE LET c == SubSeq(s, i, i) IN
       (IF c = "\n" THEN "\\n" ELSE IF c = "\"" THEN "\\\"" ELSE IF c = "\\" THEN "\\\\" ELSE c) \o EscFrom(s, i + 1)
Lit(s) == "\"" \o EscFrom(s, 1) \o "\""

RECURSIVE Join(_, _, _)
Join(xs, sep, i) ==
  IF i > Len(xs) THEN "" ELSE xs[i] \o (IF i < Len(xs) THEN sep \o Join(xs, sep, i + 1) ELSE "")
RECURSIVE Indent(_)
Indent(n) == IF n = 0 THEN "" ELSE "  " \o Indent(n - 1)

\* ------------------------------------------------------------------ Print
RECURSIVE P(_, _)
RECURSIVE PBlock(_, _)
PSeq(xs, ind) == [i \in 1..Len(xs) |-> P(xs[i], ind)]
PBlock(stmts, ind) ==
  IF stmts = <<>> THEN ""
  ELSE Join([i \in 1..Len(stmts) |-> Indent(ind) \o P(stmts[i], ind) \o "\n"], "", 1)
PParams(ps) == Join([i \in 1..Len(ps) |-> ps[i] \o ": Int"], ", ", 1)
LamRt(e) == IF "rt" \in DOMAIN e /\ e.rt = "Bool" THEN "Bool" ELSE "Int"
P(e, ind) ==
  CASE e.k = "int"   -> ToString(e.v)
    [] e.k = "str"   -> Lit(e.v)
    [] e.k = "int64" -> e.t          \* an integer literal given by its text (beyond TLC's 32-bit integers)
    [] e.k = "bool"  -> IF e.v THEN "True" ELSE "False"
    [] e.k = "unit"  -> "Unit"
    [] e.k = "var"   -> e.n
    [] e.k = "paren" -> "(" \o P(e.e, ind) \o ")"
    [] e.k = "bin"   -> P(e.l, ind) \o " " \o e.op \o " " \o P(e.r, ind)
    [] e.k = "list"  -> "[" \o Join(PSeq(e.xs, ind), ", ", 1) \o "]"
    [] e.k = "tuple" -> "(" \o Join(PSeq(e.xs, ind), ", ", 1) \o (IF Len(e.xs) = 1 THEN "," ELSE "") \o ")"
    [] e.k = "ctor"  -> e.n \o (IF e.args = <<>> THEN "" ELSE "(" \o Join(PSeq(e.args, ind), ", ", 1) \o ")")
    [] e.k = "call"  -> P(e.f, ind) \o "(" \o Join(PSeq(e.args, ind), ", ", 1) \o ")"
    [] e.k = "mcall" -> P(e.recv, ind) \o "." \o e.m \o "(" \o Join(PSeq(e.args, ind), ", ", 1) \o ")"
    [] e.k = "lam"   -> "fun(" \o PParams(e.ps) \o "): " \o LamRt(e) \o " {\n" \o PBlock(e.b, ind + 1) \o Indent(ind) \o "}"
    [] e.k = "dot"   -> P(e.e, ind) \o "." \o e.f
    [] e.k = "slit"  -> e.n \o "{ " \o Join([i \in 1..Len(e.fs) |-> e.fs[i].n \o ": " \o P(e.fs[i].e, ind)], ", ", 1) \o " }"
    [] e.k = "dlit"  -> "Dict[" \o Join([i \in 1..Len(e.kvs) |-> P(e.kvs[i].key, ind) \o " => " \o P(e.kvs[i].val, ind)], ", ", 1) \o "]"
    [] e.k = "letd"  -> "let (" \o Join(e.ns, ", ", 1) \o ") = " \o P(e.e, ind)
    [] e.k = "ford"  -> "for (" \o Join(e.ns, ", ", 1) \o ") in " \o P(e.it, ind) \o " {\n" \o PBlock(e.b, ind + 1) \o Indent(ind) \o "}"
    [] e.k = "try"   -> "try {\n" \o PBlock(e.b, ind + 1) \o Indent(ind) \o "} catch (e9) {\n" \o PBlock(e.cb, ind + 1) \o Indent(ind) \o "}"
    [] e.k = "let"   -> "let " \o e.n \o " = " \o P(e.e, ind)
    [] e.k = "set"   -> e.n \o " = " \o P(e.e, ind)
    [] e.k = "upd"   -> e.n \o " " \o e.op \o "= " \o P(e.e, ind)
    [] e.k = "show"  -> "println(string_repr(" \o P(e.e, ind) \o "))"
    [] e.k = "print" -> "print(" \o Lit(e.v) \o ")"
    [] e.k = "throw" -> "throw(" \o Lit(e.v) \o ")"
    [] e.k = "assert" -> "assert(" \o P(e.e, ind) \o ")"
    [] e.k = "break" -> "break"
    [] e.k = "continue" -> "continue"
    [] e.k = "ret"   -> "return " \o P(e.e, ind)
    [] e.k = "if"    ->
         "if " \o P(e.c, ind) \o " {\n" \o PBlock(e.t, ind + 1) \o Indent(ind) \o "}"
         \o (IF e.else THEN " else {\n" \o PBlock(e.f, ind + 1) \o Indent(ind) \o "}" ELSE "")
    [] e.k = "while" -> "while " \o P(e.c, ind) \o " {\n" \o PBlock(e.b, ind + 1) \o Indent(ind) \o "}"
    [] e.k = "for"   -> "for " \o e.n \o " in " \o P(e.it, ind) \o " {\n" \o PBlock(e.b, ind + 1) \o Indent(ind) \o "}"
    [] e.k = "match" ->
         "match " \o P(e.s, ind) \o " {\n"
         \o Join([i \in 1..Len(e.arms) |->
                    Indent(ind + 1)
                    \o (IF e.arms[i].wild THEN "_"
                        ELSE e.arms[i].v \o (IF e.arms[i].bind # "" THEN "(" \o e.arms[i].bind \o ")" ELSE ""))
                    \o " => {\n" \o PBlock(e.arms[i].b, ind + 2) \o Indent(ind + 1) \o "}\n"], "", 1)
         \o Indent(ind) \o "}"

PFun(f) == "fun " \o f.n \o "(" \o PParams(f.ps) \o "): " \o f.rt \o " {\n" \o PBlock(f.b, 1) \o "}\n"
\* user-defined methods (prog.meths, when present): method n(this: T, p: Int): Int { ... }
Meths(prog) == IF "meths" \in DOMAIN prog THEN prog.meths ELSE <<>>
PMeth(m) == "method " \o m.n \o "(" \o m.this \o ": " \o m.tt \o (IF m.ps = <<>> THEN "" ELSE ", " \o PParams(m.ps)) \o "): " \o m.rt
            \o " {\n" \o PBlock(m.b, 1) \o "}\n"
PrintProg(prog) ==
  (IF prog.uses_enum THEN "enum E1 { A1, B1(Int), C1 }\n" ELSE "")
  \o (IF "uses_struct" \in DOMAIN prog /\ prog.uses_struct THEN "struct P1 { x: Int, y: String }\n" ELSE "")
  \o Join([i \in 1..Len(Meths(prog)) |-> PMeth(Meths(prog)[i])], "", 1)
  \o Join([i \in 1..Len(prog.funs) |-> PFun(prog.funs[i])], "", 1)
  \o PBlock(prog.main, 0)

\* ------------------------------------------------------------------- Sexp
RECURSIVE S(_)
SList(xs) == "[" \o Join([i \in 1..Len(xs) |-> S(xs[i])], " ", 1) \o "]"
Hint(t) == "(TypeHint " \o t \o " [])"
SParams(ps) == "[" \o Join([i \in 1..Len(ps) |-> "(SymbolWithHint " \o ps[i] \o " " \o Hint("Int") \o ")"], " ", 1) \o "]"
CallOf(name, args) == "(Call (Variable " \o name \o ") " \o args \o ")"
S(e) ==
  CASE e.k = "int"   -> "(IntLiteral " \o ToString(e.v) \o ")"
    [] e.k = "str"   -> "(StringLiteral \"" \o EscFrom(e.v, 1) \o "\")"
    [] e.k = "int64" -> "(IntLiteral " \o e.t \o ")"
    [] e.k = "bool"  -> "(Variable " \o (IF e.v THEN "True" ELSE "False") \o ")"
    [] e.k = "unit"  -> "(Variable Unit)"
    [] e.k = "var"   -> "(Variable " \o e.n \o ")"
    [] e.k = "paren" -> "(Parentheses " \o S(e.e) \o ")"
    [] e.k = "bin"   -> "(BinaryOperator " \o S(e.l) \o " (BinaryOperatorSymbol " \o OpName(e.op) \o ") " \o S(e.r) \o ")"
    [] e.k = "list"  -> "(ListLiteral " \o SList(e.xs) \o ")"
    [] e.k = "tuple" -> "(TupleLiteral " \o SList(e.xs) \o ")"
    [] e.k = "ctor"  -> IF e.args = <<>> THEN "(Variable " \o e.n \o ")" ELSE CallOf(e.n, SList(e.args))
    [] e.k = "call"  -> "(Call " \o S(e.f) \o " " \o SList(e.args) \o ")"
    [] e.k = "mcall" -> "(MethodCall " \o S(e.recv) \o " " \o e.m \o " " \o SList(e.args) \o ")"
    [] e.k = "lam"   -> "(FunLiteral (FunInfo None [] " \o SParams(e.ps) \o " " \o Hint(LamRt(e)) \o " " \o SList(e.b) \o "))"
    [] e.k = "dot"   -> "(DotAccess " \o S(e.e) \o " " \o e.f \o ")"
    [] e.k = "slit"  -> "(StructLiteral " \o e.n \o " [" \o Join([i \in 1..Len(e.fs) |-> "(Tuple " \o e.fs[i].n \o " " \o S(e.fs[i].e) \o ")"], " ", 1) \o "])"
    [] e.k = "dlit"  -> "(DictLiteral [" \o Join([i \in 1..Len(e.kvs) |-> "(DictKeyValue " \o S(e.kvs[i].key) \o " " \o S(e.kvs[i].val) \o ")"], " ", 1) \o "])"
    [] e.k = "letd"  -> "(Let (Destructure [" \o Join(e.ns, " ", 1) \o "]) None " \o S(e.e) \o ")"
    [] e.k = "ford"  -> "(ForIn (Destructure [" \o Join(e.ns, " ", 1) \o "]) " \o S(e.it) \o " " \o SList(e.b) \o ")"
    [] e.k = "try"   -> "(Try " \o SList(e.b) \o " e9 " \o SList(e.cb) \o ")"
    [] e.k = "let"   -> "(Let (Symbol " \o e.n \o ") None " \o S(e.e) \o ")"
    [] e.k = "set"   -> "(Assign " \o e.n \o " " \o S(e.e) \o ")"
    [] e.k = "upd"   -> "(AssignUpdate " \o e.n \o " " \o (IF e.op = "+" THEN "Add" ELSE "Subtract") \o " " \o S(e.e) \o ")"
    [] e.k = "show"  -> CallOf("println", "[" \o CallOf("string_repr", "[" \o S(e.e) \o "]") \o "]")
    [] e.k = "print" -> CallOf("print", "[(StringLiteral \"" \o EscFrom(e.v, 1) \o "\")]")
    [] e.k = "throw" -> CallOf("throw", "[(StringLiteral \"" \o EscFrom(e.v, 1) \o "\")]")
    [] e.k = "assert" -> "(Assert " \o S(e.e) \o ")"
    [] e.k = "break" -> "Break"
    [] e.k = "continue" -> "Continue"
    [] e.k = "ret"   -> "(Return " \o S(e.e) \o ")"
    [] e.k = "if"    -> "(If " \o S(e.c) \o " " \o SList(e.t) \o " " \o (IF e.else THEN SList(e.f) ELSE "None") \o ")"
    [] e.k = "while" -> "(While " \o S(e.c) \o " " \o SList(e.b) \o ")"
    [] e.k = "for"   -> "(ForIn (Symbol " \o e.n \o ") " \o S(e.it) \o " " \o SList(e.b) \o ")"
    [] e.k = "match" ->
         "(Match " \o S(e.s) \o " ["
         \o Join([i \in 1..Len(e.arms) |->
                    "(Tuple (Pattern "
                    \o (IF e.arms[i].wild THEN "_ None"
                        ELSE e.arms[i].v \o " " \o (IF e.arms[i].bind # "" THEN "(Symbol " \o e.arms[i].bind \o ")" ELSE "None"))
                    \o ") " \o SList(e.arms[i].b) \o ")"], " ", 1)
         \o "])"

SFun(f) == "(Fun " \o f.n \o " (FunInfo " \o f.n \o " [] " \o SParams(f.ps) \o " " \o Hint(f.rt) \o " " \o SList(f.b) \o ") CurrentFile)"
\* the receiver types of generated methods
HintOf(tt) == CASE tt = "List<Int>" -> "(TypeHint List [(TypeHint Int [])])"
                [] tt = "Option<Int>" -> "(TypeHint Option [(TypeHint Int [])])"
                [] tt = "Dict<Int>" -> "(TypeHint Dict [(TypeHint Int [])])"
                [] OTHER -> Hint(tt)
SMeth(m) == "(Method (MethodInfo " \o HintOf(m.tt) \o " " \o m.this \o " " \o m.n \o " (UserDefinedMethod (FunInfo " \o m.n \o " [] "
            \o SParams(m.ps) \o " " \o Hint(m.rt) \o " " \o SList(m.b) \o "))) CurrentFile)"
EnumSexp == "(Enum (EnumInfo CurrentFile E1 [] [(VariantInfo A1 None) (VariantInfo B1 (TypeHint Int [])) (VariantInfo C1 None)]))"
\* one S-expression per top-level item, in order
StructSexp == "(Struct (StructInfo CurrentFile P1 [] [(FieldInfo x (TypeHint Int [])) (FieldInfo y (TypeHint String []))]))"
UsesStruct(prog) == "uses_struct" \in DOMAIN prog /\ prog.uses_struct
SexpItems(prog) ==
  (IF prog.uses_enum THEN <<EnumSexp>> ELSE <<>>)
  \o (IF UsesStruct(prog) THEN <<StructSexp>> ELSE <<>>)
  \o [i \in 1..Len(Meths(prog)) |-> SMeth(Meths(prog)[i])]
  \o [i \in 1..Len(prog.funs) |-> SFun(prog.funs[i])]
  \o [i \in 1..Len(prog.main) |-> S(prog.main[i])]

\* --------------------------------------------------------------- LeftFold
BinE(op, l, r) == [k |-> "bin", op |-> op, l |-> l, r |-> r]
RECURSIVE FoldFrom(_, _, _, _)
FoldFrom(xs, ops, i, acc) ==
  IF i > Len(xs) THEN acc ELSE FoldFrom(xs, ops, i + 1, BinE(ops[i - 1], acc, xs[i]))
\* x1 op1 x2 op2 ... xn  ==  ((x1 op1 x2) op2 x3) ...
LeftFold(xs, ops) == FoldFrom(xs, ops, 2, xs[1])
\* the chain's source text: operands and operators in order, no parentheses added
ChainText(xs, ops) ==
  Join([i \in 1..Len(xs) |-> P(xs[i], 0) \o (IF i < Len(xs) THEN " " \o ops[i] ELSE "")], " ", 1)

\* ------------------------------------------------------- bounded families
IntE(v) == [k |-> "int", v |-> v]
VarE(n) == [k |-> "var", n |-> n]
StrE(s) == [k |-> "str", v |-> s]
ParenE(e) == [k |-> "paren", e |-> e]
CallE(f, args) == [k |-> "call", f |-> f, args |-> args]
MCallE(r, m, args) == [k |-> "mcall", recv |-> r, m |-> m, args |-> args]
\* the ends of the 64-bit range: the most negative integer has no positive counterpart, so its literal
\* cannot be read as "minus" applied to a magnitude
Leaves == {IntE(1), IntE(20), IntE(-3), VarE("a"), VarE("b"), StrE("s"), [k |-> "bool", v |-> TRUE],
           [k |-> "int64", t |-> "-9223372036854775808"], [k |-> "int64", t |-> "9223372036854775807"]}
SampleOps == {"+", "<", "^"}
RECURSIVE ExprTrees(_)
ExprTrees(d) ==
  IF d = 0 THEN Leaves
  ELSE LET T == ExprTrees(d - 1) IN
       T \cup {BinE(op, l, r) : op \in SampleOps, l \in T, r \in T}
         \cup {ParenE(e) : e \in T}
         \cup {CallE(VarE("f"), <<e>>) : e \in T}
         \cup {CallE(VarE("g"), <<e, IntE(2)>>) : e \in T}
         \cup {MCallE(e, "m", <<>>) : e \in T}
         \cup {MCallE(VarE("a"), "m", <<e>>) : e \in T}
         \cup {[k |-> "list", xs |-> <<e, IntE(3)>>] : e \in T}
         \cup {[k |-> "tuple", xs |-> <<e>>] : e \in T}
         \cup {[k |-> "ctor", n |-> "Some", args |-> <<e>>] : e \in T}
         \cup {[k |-> "dot", e |-> e, f |-> "x"] : e \in T \ {x \in T : x.k \in {"int", "int64", "bin"}}}   \* `1.x` lexes as a float start, `a + b.x` groups differently
         \cup {[k |-> "slit", n |-> "P1", fs |-> <<[n |-> "x", e |-> e], [n |-> "y", e |-> StrE("s")]>>] : e \in T}
         \cup {[k |-> "dlit", kvs |-> <<[key |-> StrE("s"), val |-> e], [key |-> e, val |-> IntE(1)]>>] : e \in T}
         \cup {[k |-> "dlit", kvs |-> <<>>]}

SlotExprs == {IntE(1), IntE(-3), BinE("<", IntE(-1), VarE("a")), VarE("a"), BinE("+", VarE("a"), IntE(1)), CallE(VarE("f"), <<VarE("b")>>), ParenE(BinE("<", VarE("a"), VarE("b")))}
RECURSIVE StmtTrees(_)
StmtTrees(d) ==
  LET E == SlotExprs IN
  IF d = 0
  THEN {[k |-> "let", n |-> "x", e |-> e] : e \in E}
       \cup {[k |-> "set", n |-> "x", e |-> e] : e \in E}
       \cup {[k |-> "upd", n |-> "x", op |-> o, e |-> e] : o \in {"+", "-"}, e \in E}
       \cup {[k |-> "ret", e |-> e] : e \in E}
       \cup {[k |-> "assert", e |-> e] : e \in E}
       \cup {[k |-> "show", e |-> e] : e \in E}
       \cup {[k |-> "break"], [k |-> "continue"], [k |-> "print", v |-> "p q"], [k |-> "throw", v |-> "boom"]}
       \cup {[k |-> "letd", ns |-> <<"p", "q">>, e |-> e] : e \in E}
       \cup {[k |-> "ret", e |-> [k |-> "dot", e |-> VarE("a"), f |-> "x"]], [k |-> "dot", e |-> VarE("a"), f |-> "x"]}
       \cup E
  ELSE LET T == StmtTrees(d - 1)
           Bodies == {<<>>} \cup {<<s>> : s \in T} \cup {<<s, [k |-> "print", v |-> "z"]>> : s \in T}
                     \* a statement followed by one that starts with a parenthesis: nothing may run on across the line break
                     \cup {<<s, ParenE(BinE("+", VarE("a"), IntE(1)))>> : s \in T}
       IN T
          \cup {[k |-> "if", c |-> VarE("a"), t |-> b, f |-> <<>>, else |-> FALSE] : b \in Bodies}
          \cup {[k |-> "if", c |-> ParenE(BinE("<", VarE("a"), IntE(1))), t |-> b, f |-> <<[k |-> "print", v |-> "e"]>>, else |-> TRUE] : b \in Bodies}
          \cup {[k |-> "if", c |-> VarE("a"), t |-> <<>>, f |-> b, else |-> TRUE] : b \in Bodies}
          \cup {[k |-> "while", c |-> VarE("a"), b |-> b] : b \in Bodies}
          \* a negative literal directly after a keyword (if / while / match / return above through SlotExprs)
          \cup {[k |-> "while", c |-> BinE("<", IntE(-3), VarE("a")), b |-> b] : b \in Bodies}
          \cup {[k |-> "if", c |-> BinE("<", IntE(-1), VarE("a")), t |-> b, f |-> <<>>, else |-> FALSE] : b \in Bodies}
          \cup {[k |-> "match", s |-> BinE("==", IntE(-2), VarE("a")),
                 arms |-> <<[v |-> "", bind |-> "", wild |-> TRUE, b |-> b]>>] : b \in Bodies}
          \cup {[k |-> "for", n |-> "i", it |-> [k |-> "list", xs |-> <<IntE(1), IntE(2)>>], b |-> b] : b \in Bodies}
          \cup {[k |-> "match", s |-> VarE("a"),
                 arms |-> <<[v |-> "Some", bind |-> "n", wild |-> FALSE, b |-> b],
                            [v |-> "None", bind |-> "", wild |-> FALSE, b |-> <<>>],
                            [v |-> "", bind |-> "", wild |-> TRUE, b |-> b]>>] : b \in Bodies}
          \cup {[k |-> "let", n |-> "c", e |-> [k |-> "lam", ps |-> <<"z">>, b |-> b]] : b \in Bodies}
          \cup {[k |-> "ford", ns |-> <<"i", "j">>, it |-> VarE("a"), b |-> b] : b \in Bodies}
          \cup {[k |-> "try", b |-> b, cb |-> <<[k |-> "print", v |-> "c"]>>] : b \in Bodies}
=============================================================================
