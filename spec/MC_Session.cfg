CONSTANTS
  TickLimit = 0
  StackLimit = 0
  ProgOf <- MCProgOf
  MaxInterrupts = 2
  MaxResumes = 2
INIT Init
NEXT Next
CONSTRAINT Bounded
INVARIANT InterruptInvisible
INVARIANT ResumeRepeatsError
INVARIANT AbortIsClean
CHECK_DEADLOCK FALSE
