------------------------------ MODULE Prelude ------------------------------
(* Reference definitions of the prelude's string and list functions         *)
(* (property C32).  Transcribed from the doc comments and doc examples of   *)
(* src/__prelude.gdn, not from the function bodies.                         *)
(*                                                                          *)
(* A string is a sequence of characters (one-character TLA+ strings);       *)
(* indexes count characters, from 0, as the doc comments say.               *)
(* Results are tagged records so that the driver can print them the way     *)
(* string_repr does: S(chars) L(items) I(n) B(b) Some(x) None Tup(a, b),    *)
(* and Err for "raises an exception".                                       *)
(*                                                                          *)
(* Every function has a direct (recursive) definition, used as the oracle,  *)
(* and where the documentation states a law, the law is checked against     *)
(* the definition by MC_Prelude on every argument (the spec's own sanity).  *)
(*                                                                          *)
(* PINNED choices the documentation leaves open:                            *)
(*  - "whitespace" in trim* is the space character (the doc examples);      *)
(*  - an empty needle: index_of gives Some(0); split gives the characters   *)
(*    (so that needle.join(s.split(needle)) = s still holds); replace is    *)
(*    after.join(pieces) with the same pieces.                              *)
EXTENDS Integers, Sequences, FiniteSets, TLC

S(x) == [t |-> "s", v |-> x]
L(x) == [t |-> "l", v |-> x]
I(x) == [t |-> "i", v |-> x]
B(x) == [t |-> "b", v |-> x]
Some(x) == [t |-> "some", v |-> x]
None == [t |-> "none"]
Tup(a, b) == [t |-> "tup", v |-> <<a, b>>]
Err == [t |-> "err"]

\* Characters are symbolic: the driver maps "E" to a two-byte character, SP to a space and NL to a newline.
SP == "_"
NL == "N"
Min(a, b) == IF a <= b THEN a ELSE b
Max(a, b) == IF a >= b THEN a ELSE b
Sub(s, from, to) == SubSeq(s, from + 1, to)          \* characters from..to-1, 0-based, empty if from >= to

(* ---- strings ------------------------------------------------------------ *)
StartsWith(s, p) == Len(p) <= Len(s) /\ Sub(s, 0, Len(p)) = p
EndsWith(s, p)   == Len(p) <= Len(s) /\ Sub(s, Len(s) - Len(p), Len(s)) = p

\* least index at which n occurs in s, -1 if none (0 for the empty needle)
IndexOfRaw(s, n) ==
  LET C == {i \in 0..(Len(s) - Len(n)) : Sub(s, i, i + Len(n)) = n} IN
  IF C = {} THEN -1 ELSE CHOOSE i \in C : \A j \in C : i <= j
IndexOf(s, n)  == IF IndexOfRaw(s, n) = -1 THEN None ELSE Some(I(IndexOfRaw(s, n)))
Contains(s, n) == IndexOfRaw(s, n) # -1

\* "abc".substring(1, 99) = "bc": the end is clamped; a negative start or start > end is an error
Substring(s, from, to) ==
  IF from < 0 \/ from > to THEN Err ELSE S(Sub(s, Min(from, Len(s)), Min(to, Len(s))))

RECURSIVE JoinWith(_, _)
JoinWith(items, sep) ==
  IF items = <<>> THEN <<>>
  ELSE IF Len(items) = 1 THEN items[1]
  ELSE items[1] \o sep \o JoinWith(Tail(items), sep)

\* the pieces between occurrences of n, scanning left to right; for the empty needle, the characters
RECURSIVE Pieces(_, _)
Pieces(s, n) ==
  IF n = <<>> THEN [i \in 1..Len(s) |-> <<s[i]>>]
  ELSE LET i == IndexOfRaw(s, n) IN
       IF i = -1 THEN <<s>> ELSE <<Sub(s, 0, i)>> \o Pieces(Sub(s, i + Len(n), Len(s)), n)

Split(s, n)      == IF s = <<>> THEN <<>> ELSE Pieces(s, n)        \* "".split(",") = []
Replace(s, b, a) == JoinWith(Pieces(s, b), a)
SplitOnce(s, n)  ==
  LET i == IndexOfRaw(s, n) IN
  IF i = -1 THEN None ELSE Some(Tup(S(Sub(s, 0, i)), S(Sub(s, i + Len(n), Len(s)))))

RECURSIVE TrimLeft(_)
TrimLeft(s) == IF s # <<>> /\ s[1] = SP THEN TrimLeft(Tail(s)) ELSE s
RECURSIVE TrimRight(_)
TrimRight(s) == IF s # <<>> /\ s[Len(s)] = SP THEN TrimRight(Sub(s, 0, Len(s) - 1)) ELSE s
Trim(s) == TrimRight(TrimLeft(s))
StripPrefix(s, p) == IF StartsWith(s, p) THEN Sub(s, Len(p), Len(s)) ELSE s
StripSuffix(s, p) == IF EndsWith(s, p) THEN Sub(s, 0, Len(s) - Len(p)) ELSE s
Chars(s) == [i \in 1..Len(s) |-> <<s[i]>>]

\* lines end at "\n"; a final line without a newline counts, a final empty one does not ("a\n" has one line)
RECURSIVE Lines(_)
Lines(s) ==
  IF s = <<>> THEN <<>>
  ELSE LET i == IndexOfRaw(s, <<NL>>) IN
       IF i = -1 THEN <<s>> ELSE <<Sub(s, 0, i)>> \o Lines(Sub(s, i + 1, Len(s)))

(* ---- lists -------------------------------------------------------------- *)
Get(l, i)   == IF i < 0 \/ i >= Len(l) THEN None ELSE Some(l[i + 1])
First(l)    == Get(l, 0)
Last(l)     == Get(l, Len(l) - 1)
\* [10, 11, 12].slice(1, -1) = [11]: a negative end counts from the end; both ends are clamped
Slice(l, i, j) ==
  LET jj == IF j < 0 THEN Len(l) + j ELSE j
      a == Min(Max(i, 0), Len(l))
      b == Max(Min(Max(jj, 0), Len(l)), a)
  IN Sub(l, a, b)
Concat(l, m) == l \o m
ListContains(l, x) == \E i \in 1..Len(l) : l[i] = x
ListIndexOf(l, x) ==
  LET C == {i \in 1..Len(l) : l[i] = x} IN
  IF C = {} THEN None ELSE Some(I((CHOOSE i \in C : \A j \in C : i <= j) - 1))
Enumerate(l) == [i \in 1..Len(l) |-> Tup(I(i - 1), l[i])]
Range(i, j)  == [k \in 1..Max(j - i, 0) |-> i + k - 1]
RECURSIVE Insert(_, _)
Insert(x, l) == IF l = <<>> THEN <<x>> ELSE IF x <= l[1] THEN <<x>> \o l ELSE <<l[1]>> \o Insert(x, Tail(l))
RECURSIVE SortNums(_)
SortNums(l) == IF l = <<>> THEN <<>> ELSE Insert(l[1], SortNums(Tail(l)))
\* map / filter with the three function arguments the driver uses
ApplyF(f, x) == CASE f = "inc" -> x + 1 [] f = "dbl" -> x * 2 [] f = "neg" -> 0 - x
TestP(p, x)  == CASE p = "pos" -> x > 0 [] p = "even" -> x % 2 = 0 [] p = "all" -> TRUE
Map(l, f)    == [i \in 1..Len(l) |-> ApplyF(f, l[i])]
RECURSIVE Filter(_, _)
Filter(l, p) == IF l = <<>> THEN <<>> ELSE (IF TestP(p, l[1]) THEN <<l[1]>> ELSE <<>>) \o Filter(Tail(l), p)

(* ---- laws stated by the documentation, checked against the definitions --- *)
SplitLaws(s, n) ==
  /\ JoinWith(Pieces(s, n), n) = s                                  \* joining the pieces gives the string back
  /\ n # <<>> => \A k \in 1..Len(Pieces(s, n)) : ~Contains(Pieces(s, n)[k], n)
  /\ n # <<>> => (Contains(s, n) <=> Len(Pieces(s, n)) > 1)
ReplaceLaws(s, b) ==
  /\ Replace(s, b, b) = s                                           \* replacing by itself changes nothing
  /\ ~Contains(s, b) => \A a \in {<<>>, <<"a">>} : Replace(s, b, a) = s       \* nothing to replace
IndexLaws(s, n) ==
  /\ Contains(s, n) <=> \E i \in 0..Len(s) : StartsWith(Sub(s, i, Len(s)), n)
  /\ StartsWith(s, n) <=> IndexOfRaw(s, n) = 0
TrimLaws(s) ==
  /\ Trim(s) = TrimLeft(TrimRight(s))
  /\ (Trim(s) = <<>> \/ (Trim(s)[1] # SP /\ Trim(s)[Len(Trim(s))] # SP))
SortLaws(l) ==
  /\ Len(SortNums(l)) = Len(l)
  /\ \A i \in 1..Len(l) - 1 : SortNums(l)[i] <= SortNums(l)[i + 1]
  /\ \A x \in {l[i] : i \in 1..Len(l)} : Cardinality({i \in 1..Len(l) : l[i] = x}) = Cardinality({i \in 1..Len(l) : SortNums(l)[i] = x})
SliceLaws(l, i, j) ==
  /\ Len(Slice(l, i, j)) <= Len(l)
  /\ (i >= 0 /\ j >= i /\ j <= Len(l)) => Slice(l, i, j) = Sub(l, i, j)
=============================================================================
