------------------------------- MODULE Int64 -------------------------------
(* Garden's integer arithmetic (property C04), specified twice:             *)
(*                                                                          *)
(*  1. MATHEMATICALLY, on TLA+ integers, for a word width W:                *)
(*       Wrap(x), MAdd, MSub, MMul wrap in two's complement; MDiv truncates *)
(*       toward zero and is an error for a zero divisor or an               *)
(*       unrepresentable quotient (MIN / -1); MRem is the Euclidean         *)
(*       remainder; MPow is exact, an error for a negative exponent or a    *)
(*       result outside the word; comparisons are the integer order.        *)
(*  2. As LIMB ARITHMETIC: little-endian sequences of N limbs of 8 bits     *)
(*       (schoolbook add / sub / mul, bit-serial long division), which TLC  *)
(*       can evaluate at N = 8 (64 bits) although its own integers have 32. *)
(*                                                                          *)
(* TLC checks that (2) refines (1) exhaustively at N = 1 (W = 8: all 65536  *)
(* operand pairs) and on a boundary grid at N = 2 (W = 16); the same limb   *)
(* operators at N = 8 are then the oracle for the implementation.           *)
EXTENDS Integers, Sequences, TLC

B == 256

\* TLC keeps [i \in S |-> e] as an unevaluated lambda and re-evaluates e at
\* every application; SubSeq forces it into an explicit tuple once.
Norm(f, N) == SubSeq(f, 1, N)

(* ---------------------------------------------------------------- (1) *)
Pow2(n) == IF n = 0 THEN 1 ELSE LET F[i \in 0..n] == IF i = 0 THEN 1 ELSE 2 * F[i - 1] IN F[n]
MinW(W) == -Pow2(W - 1)
MaxW(W) == Pow2(W - 1) - 1
Wrap(x, W) == ((x + Pow2(W - 1)) % Pow2(W)) - Pow2(W - 1)
AbsI(x) == IF x < 0 THEN -x ELSE x
Val(v) == [ok |-> TRUE, v |-> v, err |-> ""]
Fail(e) == [ok |-> FALSE, v |-> 0, err |-> e]

MAdd(a, b, W) == Val(Wrap(a + b, W))
MSub(a, b, W) == Val(Wrap(a - b, W))
MMul(a, b, W) == Val(Wrap(a * b, W))
MDiv(a, b, W) ==
  IF b = 0 THEN Fail("DivZero")
  ELSE LET q == (AbsI(a) \div AbsI(b)) * (IF (a < 0) # (b < 0) THEN -1 ELSE 1) IN
       IF q > MaxW(W) THEN Fail("Overflow") ELSE Val(q)
MRem(a, b, W) ==
  IF b = 0 THEN Fail("DivZero")
  ELSE LET r == AbsI(a) % AbsI(b) IN
       Val(IF a >= 0 THEN r ELSE IF r = 0 THEN 0 ELSE AbsI(b) - r)
RECURSIVE MPowN(_, _, _)
\* a^b or "over" as soon as the magnitude leaves the word (b >= 0)
MPowN(a, b, W) ==
  IF b = 0 THEN 1
  ELSE IF a = 0 THEN 0
  ELSE IF a = 1 THEN 1
  ELSE IF a = -1 THEN (IF b % 2 = 0 THEN 1 ELSE -1)
  ELSE IF b >= W THEN Pow2(W)            \* |a| >= 2 and b >= W: certainly outside
  ELSE LET r == MPowN(a, b - 1, W) IN
       IF AbsI(r) > Pow2(W - 1) THEN Pow2(W) ELSE r * a
MPow(a, b, W) ==
  IF b < 0 THEN Fail("NegExponent")
  ELSE LET r == MPowN(a, b, W) IN
       IF r > MaxW(W) \/ r < MinW(W) THEN Fail("Overflow") ELSE Val(r)
MCmp(op, a, b) ==
  CASE op = "<" -> a < b [] op = "<=" -> a <= b [] op = ">" -> a > b [] op = ">=" -> a >= b
    [] op = "==" -> a = b [] op = "!=" -> a # b

MOp(op, a, b, W) ==
  CASE op = "+" -> MAdd(a, b, W) [] op = "-" -> MSub(a, b, W) [] op = "*" -> MMul(a, b, W)
    [] op = "/" -> MDiv(a, b, W) [] op = "%" -> MRem(a, b, W) [] op = "**" -> MPow(a, b, W)
    [] OTHER -> Val(IF MCmp(op, a, b) THEN 1 ELSE 0)

(* ---------------------------------------------------------------- (2) *)
\* limbs <-> integers (only used for the refinement check, small N)
RECURSIVE ToNat(_, _)
ToNat(x, i) == IF i > Len(x) THEN 0 ELSE x[i] + B * ToNat(x, i + 1)
Neg(x) == x[Len(x)] >= 128
ToInt(x) == IF Neg(x) THEN ToNat(x, 1) - Pow2(8 * Len(x)) ELSE ToNat(x, 1)
FromInt(v, N) ==
  LET u == IF v < 0 THEN v + Pow2(8 * N) ELSE v IN
  Norm([i \in 1..N |-> (u \div Pow2(8 * (i - 1))) % B], N)

Zero(N) == Norm([i \in 1..N |-> 0], N)
One(N)  == Norm([i \in 1..N |-> IF i = 1 THEN 1 ELSE 0], N)
IsZero(x) == \A i \in 1..Len(x) : x[i] = 0

\* x + y + c, wrapping (carry out dropped)
AddC(x, y, c0) ==
  LET N == Len(x)
      C[i \in 0..N] == IF i = 0 THEN c0 ELSE (x[i] + y[i] + C[i - 1]) \div B
  IN Norm([i \in 1..N |-> (x[i] + y[i] + C[i - 1]) % B], N)
LAdd(x, y) == AddC(x, y, 0)
Not(x) == Norm([i \in 1..Len(x) |-> 255 - x[i]], Len(x))
LNeg(x) == AddC(Not(x), Zero(Len(x)), 1)
LSub(x, y) == AddC(x, Not(y), 1)
\* unsigned comparison
RECURSIVE ULess(_, _, _)
ULess(x, y, i) == IF i = 0 THEN FALSE ELSE IF x[i] # y[i] THEN x[i] < y[i] ELSE ULess(x, y, i - 1)
ULt(x, y) == ULess(x, y, Len(x))
SLt(x, y) == IF Neg(x) # Neg(y) THEN Neg(x) ELSE ULt(x, y)
LAbs(x) == IF Neg(x) THEN LNeg(x) ELSE x        \* as an unsigned magnitude (MIN maps to 2^(W-1))

\* full product of two N-limb unsigned numbers: 2N limbs
MulFull(x, y) ==
  LET N == Len(x)
      \* column sums, then carry propagation
      Col[k \in 1..2 * N] ==
        LET S[i \in 0..N] == IF i = 0 THEN 0
                            ELSE S[i - 1] + (IF k - i + 1 >= 1 /\ k - i + 1 <= N THEN x[i] * y[k - i + 1] ELSE 0)
        IN S[N]
      C[k \in 0..2 * N] == IF k = 0 THEN 0 ELSE (Col[k] + C[k - 1]) \div B
  IN Norm([k \in 1..2 * N |-> (Col[k] + C[k - 1]) % B], 2 * N)
LMul(x, y) == SubSeq(MulFull(x, y), 1, Len(x))     \* low half = wrapping product (signed or unsigned)

\* shift left by one bit, shifting in bit b
Shl1(x, b) ==
  Norm([i \in 1..Len(x) |-> ((x[i] * 2) % B) + (IF i = 1 THEN b ELSE x[i - 1] \div 128)], Len(x))
BitAt(x, k) == (x[(k \div 8) + 1] \div Pow2(k % 8)) % 2      \* k = 0 is the least significant bit

\* unsigned long division, bit serial from the most significant bit: [q, r]
RECURSIVE DivStep(_, _, _, _, _)
DivStep(x, y, k, q, r) ==
  IF k < 0 THEN [q |-> q, r |-> r]
  ELSE \* every intermediate is LET-bound: TLC caches LET values but re-evaluates
       \* an argument expression at each use
       LET r1 == Shl1(r, BitAt(x, k))
           ge == ~ULt(r1, y)
           r2 == IF ge THEN LSub(r1, y) ELSE r1
           q2 == Shl1(q, IF ge THEN 1 ELSE 0)
       IN DivStep(x, y, k - 1, q2, r2)
UDivMod(x, y) == DivStep(x, y, 8 * Len(x) - 1, Zero(Len(x)), Zero(Len(x)))

LVal(x) == [ok |-> TRUE, v |-> x, err |-> ""]
LFail(e, N) == [ok |-> FALSE, v |-> Zero(N), err |-> e]
MinL(N) == Norm([i \in 1..N |-> IF i = N THEN 128 ELSE 0], N)

LDiv(x, y) ==
  LET N == Len(x) IN
  IF IsZero(y) THEN LFail("DivZero", N)
  ELSE LET d == UDivMod(LAbs(x), LAbs(y)) IN
       IF Neg(x) # Neg(y) THEN LVal(LNeg(d.q))
       ELSE IF Neg(d.q) THEN LFail("Overflow", N)      \* magnitude 2^(W-1) with a positive sign
       ELSE LVal(d.q)
LRem(x, y) ==
  LET N == Len(x) IN
  IF IsZero(y) THEN LFail("DivZero", N)
  ELSE LET d == UDivMod(LAbs(x), LAbs(y)) IN
       IF ~Neg(x) \/ IsZero(d.r) THEN LVal(d.r) ELSE LVal(LSub(LAbs(y), d.r))

\* signed product with overflow detection: exact iff the 2N-limb signed
\* product is the sign extension of its low half
SMulExact(x, y) ==
  LET N == Len(x)
      mag == MulFull(LAbs(x), LAbs(y))             \* unsigned magnitude, 2N limbs
      hiZero == \A i \in N + 1..2 * N : mag[i] = 0
      lo == SubSeq(mag, 1, N)
      neg == Neg(x) # Neg(y)
  IN IF ~hiZero THEN [ok |-> FALSE, v |-> lo]
     ELSE IF ~neg THEN [ok |-> ~Neg(lo), v |-> lo]
     ELSE [ok |-> ~Neg(lo) \/ lo = MinL(N), v |-> LNeg(lo)]

\* small non-negative exponent as an integer (exponents above 8N never matter)
SmallNat(y) == IF \A i \in 2..Len(y) : y[i] = 0 THEN y[1] ELSE 256
Odd(y) == y[1] % 2 = 1
RECURSIVE LPowN(_, _, _)
LPowN(x, n, acc) ==
  IF n = 0 THEN [ok |-> TRUE, v |-> acc]
  ELSE LET p == SMulExact(acc, x) IN
       IF ~p.ok THEN [ok |-> FALSE, v |-> acc] ELSE LPowN(x, n - 1, p.v)
LPow(x, y) ==
  LET N == Len(x)  one == One(N)  mone == LNeg(One(N)) IN
  IF Neg(y) THEN LFail("NegExponent", N)
  ELSE IF IsZero(y) THEN LVal(one)
  ELSE IF IsZero(x) THEN LVal(Zero(N))
  ELSE IF x = one THEN LVal(one)
  ELSE IF x = mone THEN LVal(IF Odd(y) THEN mone ELSE one)
  ELSE IF SmallNat(y) >= 8 * N THEN LFail("Overflow", N)
  ELSE LET r == LPowN(x, SmallNat(y), one) IN
       IF r.ok THEN LVal(r.v) ELSE LFail("Overflow", N)

LCmp(op, x, y) ==
  CASE op = "<" -> SLt(x, y) [] op = "<=" -> ~SLt(y, x) [] op = ">" -> SLt(y, x) [] op = ">=" -> ~SLt(x, y)
    [] op = "==" -> x = y [] op = "!=" -> x # y

LOp(op, x, y) ==
  CASE op = "+" -> LVal(LAdd(x, y)) [] op = "-" -> LVal(LSub(x, y)) [] op = "*" -> LVal(LMul(x, y))
    [] op = "/" -> LDiv(x, y) [] op = "%" -> LRem(x, y) [] op = "**" -> LPow(x, y)
    [] OTHER -> LVal(IF LCmp(op, x, y) THEN One(Len(x)) ELSE Zero(Len(x)))

Ops == {"+", "-", "*", "/", "%", "**", "<", "<=", ">", ">=", "==", "!="}

\* (2) refines (1): same success/failure, same error class, same value
Agrees(op, a, b, N) ==
  LET m == MOp(op, a, b, 8 * N)
      l == LOp(op, FromInt(a, N), FromInt(b, N))
  IN /\ m.ok = l.ok
     /\ m.ok => ToInt(l.v) = m.v
     /\ ~m.ok => m.err = l.err
=============================================================================
