CONSTANTS
  MaxLen = 3
INIT Init
NEXT Next
INVARIANT RoundTrip
CHECK_DEADLOCK FALSE
