----------------------------- MODULE MC_LspPos -----------------------------
(* Every document over a six-character alphabet (1/2/3/4-byte characters,   *)
(* LF, CR) up to MaxLen: the specification's own properties, and one TABLE  *)
(* line per document with every conversion the implementation is asked.     *)
(* Mode "all": every document up to MaxLen; Mode "file": the documents of    *)
(* the ndjson file named by DOCS ({doc: [code points]}).                    *)
EXTENDS LspPos, Json, IOUtils
CONSTANTS MaxLen, Mode
Docs == IF Mode = "file" THEN ndJsonDeserialize(IOEnv.DOCS) ELSE <<>>
Alpha == {97, 233, 8364, 128512, 10, 13}
VARIABLE d
Init == IF Mode = "file" THEN \E i \in 1..Len(Docs) : d = Docs[i].doc
        ELSE \E n \in 0..MaxLen : d \in [1..n -> Alpha]
Next == UNCHANGED d
Props == RoundTrip(d) /\ WholeCovers(d) /\ ClampMonotone(d) /\ OnBoundary(d)
Offs == {o \in 0..(ByteLen(d) + 2) : o \in Boundaries(d) \/ o > ByteLen(d)}
Emit ==
  PrintT(<<"TABLE", ToJson([
     doc |-> d,
     offsets |-> [o \in Offs |-> OffsetToPos(d, o)],
     points |-> [p \in (0..(LinesBefore(d, Len(d)) + 1)) \X (0..(2 * Len(d) + 2)) |-> PosToOffset(d, p[1], p[2])],
     whole |-> WholeRange(d)])>>)
=============================================================================
