------------------------------ MODULE MC_Int64 ------------------------------
(* Refinement check of the limb arithmetic against the mathematical         *)
(* definition: exhaustive at one limb (W = 8), boundary grid at W = 16.     *)
EXTENDS Int64
VARIABLES a, b, n

Grid16 == {-32768, -32767, -32766, -257, -256, -255, -129, -128, -127, -3, -2, -1, 0, 1, 2, 3, 7, 15, 16,
           127, 128, 129, 181, 182, 255, 256, 257, 16383, 16384, 32766, 32767}

Init == \/ n = 1 /\ a \in -128..127 /\ b \in -128..127
        \/ n = 2 /\ a \in Grid16 /\ b \in Grid16
Next == UNCHANGED <<a, b, n>>
Refines == \A op \in Ops : Agrees(op, a, b, n)
=============================================================================
