INIT Init
NEXT Next
INVARIANT Compositional
CHECK_DEADLOCK FALSE
