CONSTANTS
  Mode = "file"
  Depth = 0
INIT Init
NEXT Next
INVARIANT Laws
INVARIANT Emit
CHECK_DEADLOCK FALSE
