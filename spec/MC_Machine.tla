----------------------------- MODULE MC_Machine -----------------------------
(* Model-checking configuration for Machine.tla: every program of the file  *)
(* named by PROGS is one behaviour (one state per tick); at each terminal    *)
(* state the machine's observable result must equal the reference            *)
(* semantics' (Machine refines Ref), and the machine's own invariants hold.  *)
EXTENDS Machine, Json, IOUtils

Progs == ndJsonDeserialize(IOEnv.PROGS)
MCProgOf(i) == Progs[i]
Fuel == 300
MaxTicks == 6000

Init == \E i \in 1..Len(Progs) : MInit(i)
Next == MStep

Bounded == ticks <= MaxTicks

RefinesRef ==
  status \in {"done", "stopped"} =>
    LET r == Run(prog, Fuel) IN
    \/ r.outcome \in {"fuel", "big"}
    \/ stop.kind = "BIG"
    \/ IF status = "done"
       THEN /\ r.outcome = "ok"
            /\ r.out = out
            /\ (r.value = "" \/ result.k \in {"Clo", "Fun"} \/ r.value = Disp(result))
       ELSE /\ r.outcome # "ok"
            /\ r.ek = stop.kind
            /\ r.line = stop.line
            /\ r.out = out

\* One line per finished behaviour, for the replay direction.
Report ==
  status \in {"done", "stopped"} =>
    PrintT(<<"MEXPECT", ToJson([id |-> prog.id, status |-> status, kind |-> stop.kind,
                                line |-> stop.line, out |-> out, ticks |-> ticks])>>)
=============================================================================
