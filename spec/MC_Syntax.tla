----------------------------- MODULE MC_Syntax -----------------------------
(* Enumerations over Syntax.tla for TLC:                                    *)
(*   mode "expr"   every tree of ExprTrees(Depth) as a top-level expression *)
(*   mode "stmt"   every tree of StmtTrees(Depth) inside a function body    *)
(*   mode "chain"  operator chains of length 2..MaxChain (C03): every       *)
(*                 sequence over three operator classes (which decides the  *)
(*                 tree shape completely: two positions carry the same or   *)
(*                 different operators), instantiated with the 21 concrete  *)
(*                 operators in rotation, with plain operands and with one  *)
(*                 call / method call / parenthesised sub-chain operand at  *)
(*                 each position                                            *)
(*   mode "prog"   the generated programs of the file named by PROGS        *)
(* Each element prints one line [src, sexp]: its canonical text and the     *)
(* tree the parser must produce for it.                                     *)
EXTENDS Syntax, Json, IOUtils

CONSTANTS Mode, Depth, MaxChain

Progs == IF Mode = "prog" THEN ndJsonDeserialize(IOEnv.PROGS) ELSE <<>>

VARIABLE item

\* ---- chains
Special(kind, i) ==
  CASE kind = "call"  -> CallE(VarE("f"), <<IntE(i)>>)
    [] kind = "mcall" -> MCallE(VarE("a"), "m", <<>>)
    [] kind = "paren" -> ParenE(BinE("-", VarE("p"), IntE(i)))
    [] kind = "neg"   -> IntE(-i)
Operand(pat, i) ==
  IF pat.kind = "ints" THEN IntE(i)
  ELSE IF pat.kind = "vars" THEN VarE(<<"a", "b", "c", "d", "e", "g">>[i])
  ELSE IF pat.pos = i THEN Special(pat.kind, i) ELSE VarE(<<"a", "b", "c", "d", "e", "g">>[i])
Patterns(n) ==
  {[kind |-> "ints", pos |-> 0], [kind |-> "vars", pos |-> 0]}
  \cup {[kind |-> k, pos |-> p] : k \in {"call", "mcall", "paren", "neg"}, p \in 1..n}
\* class sequence c (values 0..2) and rotation r pick concrete operators
ConcreteOps(cs, r) == [i \in 1..Len(cs) |-> AllOps[((cs[i] * 7 + r) % 21) + 1]]
Chains ==
  {[n |-> n, cs |-> cs, r |-> r, pat |-> pat] :
     n \in 2..MaxChain, cs \in UNION {[1..(m - 1) -> 0..2] : m \in 2..MaxChain}, r \in 0..6,
     pat \in UNION {Patterns(m) : m \in 2..MaxChain}}
ChainOk(c) == Len(c.cs) = c.n - 1 /\ c.pat.pos <= c.n
ChainItem(c) ==
  LET xs == [i \in 1..c.n |-> Operand(c.pat, i)]
      ops == ConcreteOps(c.cs, c.r)
  IN [src |-> ChainText(xs, ops), sexp |-> <<S(LeftFold(xs, ops))>>]

ExprItem(t) == [src |-> P(t, 0) \o "\n", sexp |-> <<S(t)>>]
StmtItem(t) ==
  LET f == [n |-> "w", ps |-> <<>>, rt |-> "Int", b |-> <<t>>] IN
  [src |-> PFun(f), sexp |-> <<SFun(f)>>]
ProgItem(i) == [src |-> PrintProg(Progs[i]), sexp |-> SexpItems(Progs[i])]

Init ==
  CASE Mode = "expr"  -> \E t \in ExprTrees(Depth) : item = ExprItem(t)
    [] Mode = "stmt"  -> \E t \in StmtTrees(Depth) : item = StmtItem(t)
    [] Mode = "chain" -> \E c \in {c \in Chains : ChainOk(c)} : item = ChainItem(c)
    [] Mode = "prog"  -> \E i \in 1..Len(Progs) : item = ProgItem(i)
Next == UNCHANGED item

Emit == PrintT(<<"ITEM", ToJson(item)>>)
=============================================================================
