----------------------------- MODULE TestRunner -----------------------------
(* `garden test` (anchors: src/eval.rs:862-921 eval_tests, src/env.rs       *)
(* pop_to_toplevel, src/test_runner.rs:290-343 run_tests_in_files).         *)
(*                                                                          *)
(* A file holds tests 1..N, each with a body kind.  A body kind has an      *)
(* INTRINSIC verdict (what the body does on a clean interpreter) and a      *)
(* RESIDUE: what it leaves behind when it stops (frames, open blocks,       *)
(* pending values, pending expressions).  The runner selects the tests      *)
(* whose name contains the filter, and for each, in file order: pushes a    *)
(* fresh frame on the top-level frame, evaluates, records the verdict, and  *)
(* resets the stack to the top level.  A test that starts on a dirty stack  *)
(* has an unspecified verdict -- so VerdictIndependent holds exactly        *)
(* because Reset removes every residue.                                     *)
EXTENDS Integers, Sequences, FiniteSets, TLC, Json

CONSTANTS MaxTests

Kinds == <<"pass", "assertfail", "throwdeep", "typeerr", "leftover", "passblocks", "passcall", "asserthelper">>
Intrinsic(k) == IF k \in {"pass", "passblocks", "passcall"} THEN "pass" ELSE "fail"
\* what a body of this kind leaves on the stack when it stops
Residue(k) ==
  CASE k = "pass" -> "clean" [] k = "passblocks" -> "clean" [] k = "passcall" -> "clean"
    [] k = "assertfail" -> "values"          \* the compared operands are pending
    [] k = "typeerr"    -> "values"
    [] k = "throwdeep"  -> "frames+blocks"   \* stopped three frames deep inside nested blocks
    [] k = "leftover"   -> "frames+values"   \* stopped in a callee while a list literal was half built
    [] k = "asserthelper" -> "frames"        \* an assertion failed inside a helper the test called; more of the body is pending

VARIABLES kinds,      \* body kind of test i
          filter,     \* 0 = no filter, i = "only test i", -1 = "only passing-kind names"
          next,       \* next test (file order) to consider
          residue,    \* what the previous test left ("clean" after Reset)
          verdict,    \* test |-> "pass" | "fail" | "unspecified" | "notrun"
          phase       \* "run" | "reset" | "done"

vars == <<kinds, filter, next, residue, verdict, phase>>

N == Len(kinds)
Selected(i) == filter = 0 \/ filter = i \/ (filter = -1 /\ Intrinsic(Kinds[kinds[i]]) = "pass")

Init ==
  /\ \E n \in 1..MaxTests : kinds \in [1..n -> 1..Len(Kinds)]
  /\ filter \in -1..Len(kinds)
  /\ next = 1 /\ residue = "clean" /\ phase = "run"
  /\ verdict = [i \in 1..Len(kinds) |-> "notrun"]

Skip ==
  /\ phase = "run" /\ next <= N /\ ~Selected(next)
  /\ next' = next + 1
  /\ UNCHANGED <<kinds, filter, residue, verdict, phase>>

RunTest ==
  /\ phase = "run" /\ next <= N /\ Selected(next)
  /\ verdict' = [verdict EXCEPT ![next] = IF residue = "clean" THEN Intrinsic(Kinds[kinds[next]]) ELSE "unspecified"]
  /\ residue' = Residue(Kinds[kinds[next]])
  /\ phase' = "reset"
  /\ UNCHANGED <<kinds, filter, next>>

\* Stack::pop_to_toplevel: frames, values, blocks and pending expressions
Reset ==
  /\ phase = "reset"
  /\ residue' = "clean"
  /\ next' = next + 1
  /\ phase' = "run"
  /\ UNCHANGED <<kinds, filter, verdict>>

Finish ==
  /\ phase = "run" /\ next > N
  /\ phase' = "done"
  /\ UNCHANGED <<kinds, filter, next, residue, verdict>>

Next == Skip \/ RunTest \/ Reset \/ Finish

Failed == {i \in 1..N : verdict[i] = "fail"}
Ran    == {i \in 1..N : verdict[i] # "notrun"}
ExitCode == IF Failed # {} THEN 1 ELSE 0

(* C26 *)
VerdictIndependent ==
  \A i \in 1..N : verdict[i] \in {"notrun", Intrinsic(Kinds[kinds[i]])}
SummaryHonest ==
  phase = "done" => /\ Ran = {i \in 1..N : Selected(i)}
                    /\ (ExitCode = 1) = (\E i \in Ran : Intrinsic(Kinds[kinds[i]]) = "fail")

Emit ==
  phase = "done" =>
    PrintT(<<"CONFIG", ToJson([kinds |-> [i \in 1..N |-> Kinds[kinds[i]]], filter |-> filter,
                               verdicts |-> verdict, exit |-> ExitCode,
                               passed |-> Cardinality(Ran \ Failed), failed |-> Cardinality(Failed)])>>)
=============================================================================
