----------------------------- MODULE MC_Session -----------------------------
(* Every program of PROGS, with up to MaxInterrupts interrupts placed by    *)
(* TLC before any tick and resumed, and every error resumed MaxResumes      *)
(* times or aborted.  InterruptInvisible is RefinesRef of the finished      *)
(* evaluation: output and result are those of the uninterrupted reference.  *)
EXTENDS Session, Json, IOUtils

Progs == ndJsonDeserialize(IOEnv.PROGS)
MCProgOf(i) == Progs[i]
Fuel == 300
MaxTicks == 400

\* The reference result, computed once per behaviour (it never changes).
VARIABLE expect
RefOf(i) == LET r == Run(ProgOf(i), Fuel) IN
            [outcome |-> r.outcome, out |-> r.out, ek |-> r.ek, line |-> r.line]

Init == \E i \in 1..Len(Progs) : SInit(i) /\ expect = RefOf(i)
Next == SNext /\ UNCHANGED expect
Bounded == ticks <= MaxTicks

InterruptInvisible ==
  (status = "done" \/ (status = "stopped" /\ stop.kind # "Interrupted")) =>
    LET r == expect IN
    \/ r.outcome \in {"fuel", "big"}
    \/ stop.kind = "BIG"
    \/ IF status = "done"
       THEN r.outcome = "ok" /\ r.out = out
       ELSE r.outcome # "ok" /\ r.ek = stop.kind /\ r.line = stop.line /\ r.out = out
=============================================================================
