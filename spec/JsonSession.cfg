CONSTANTS
  MaxLen = 2
INIT Init
NEXT Next
VIEW View
INVARIANT OneResponsePerRequest
INVARIANT AllAnswered
INVARIANT Emit
CHECK_DEADLOCK FALSE
