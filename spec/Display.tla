------------------------------ MODULE Display ------------------------------
(* Printed form of values with literal syntax, the string-literal reader,   *)
(* and structural equality (properties C12, C13).  Anchors:                 *)
(* src/values.rs Value::display, escape_string_literal, PartialEq;          *)
(* src/parser/lex.rs STRING_RE; src/parser.rs unescape_string.              *)
(*                                                                          *)
(* Strings are sequences of code points; text is a sequence of code points. *)
(* Values (JSON):                                                           *)
(*   [k: "Int", v: decimal text]   [k: "Float", v: canonical text]          *)
(*   [k: "Str", cs: code points]   [k: "List" | "Tuple", xs: values]        *)
(*   [k: "Dict", ks: strings (code point seqs), vs: values]                 *)
(*   [k: "Enum", n: variant, has: BOOLEAN, p: payload]                      *)
(*   [k: "Struct", n: type, fs: field names, vs: values]                    *)
EXTENDS Integers, Sequences, TLC, FiniteSets

Q  == 34    \* "
BS == 92    \* backslash
NL == 10
LN == 110   \* n
LT == 116   \* t
TAB == 9

RECURSIVE Codes(_, _)
\* code points of an ASCII TLC string (names, punctuation, numerals)
Ascii == " !\"#$%&'()*+,-./0123456789:;<=>?@ABCDEFGHIJKLMNOPQRSTUVWXYZ[\\]^_`abcdefghijklmnopqrstuvwxyz{|}~"
CodeOf(c) == CHOOSE i \in 1..Len(Ascii) : SubSeq(Ascii, i, i) = c
Codes(s, i) == IF i > Len(s) THEN <<>> ELSE <<CodeOf(SubSeq(s, i, i)) + 31>> \o Codes(s, i + 1)
T(s) == Codes(s, 1)

RECURSIVE Flat(_, _)
Flat(xss, i) == IF i > Len(xss) THEN <<>> ELSE xss[i] \o Flat(xss, i + 1)
RECURSIVE JoinT(_, _, _)
JoinT(xss, sep, i) ==
  IF i > Len(xss) THEN <<>> ELSE xss[i] \o (IF i < Len(xss) THEN sep \o JoinT(xss, sep, i + 1) ELSE <<>>)

\* escape_string_literal: only quote, backslash and newline are escaped
RECURSIVE Esc(_, _)
Esc(cs, i) ==
  IF i > Len(cs) THEN <<>>
  ELSE (IF cs[i] = Q THEN <<BS, Q>> ELSE IF cs[i] = BS THEN <<BS, BS>> ELSE IF cs[i] = NL THEN <<BS, LN>> ELSE <<cs[i]>>)
       \o Esc(cs, i + 1)
StrLit(cs) == <<Q>> \o Esc(cs, 1) \o <<Q>>

RECURSIVE Disp(_)
\* dict entries are printed sorted by key; ks arrives sorted (tools render them so)
Disp(v) ==
  CASE v.k = "Int"   -> T(v.v)
    [] v.k = "Float" -> T(v.v)
    [] v.k = "Str"   -> StrLit(v.cs)
    [] v.k = "List"  -> T("[") \o JoinT([i \in 1..Len(v.xs) |-> Disp(v.xs[i])], T(", "), 1) \o T("]")
    [] v.k = "Tuple" -> T("(") \o JoinT([i \in 1..Len(v.xs) |-> Disp(v.xs[i])], T(", "), 1)
                        \o (IF Len(v.xs) = 1 THEN T(",") ELSE <<>>) \o T(")")
    [] v.k = "Dict"  -> T("Dict[") \o JoinT([i \in 1..Len(v.ks) |-> StrLit(v.ks[i]) \o T(" => ") \o Disp(v.vs[i])], T(", "), 1) \o T("]")
    [] v.k = "Enum"  -> T(v.n) \o (IF v.has THEN T("(") \o Disp(v.p) \o T(")") ELSE <<>>)
    [] v.k = "Struct" -> T(v.n) \o T("{ ")
                         \o JoinT([i \in 1..Len(v.fs) |-> T(v.fs[i]) \o T(": ") \o Disp(v.vs[i])], T(", "), 1) \o T(" }")

(* The string-literal reader: a literal starts at a quote and ends at the   *)
(* first quote that is not escaped; a backslash escapes the next character  *)
(* (so `\\` is an escaped backslash and does not escape what follows).      *)
RECURSIVE LitEnd(_, _)
\* index of the closing quote of the literal whose opening quote is at i-1, or 0
LitEnd(t, i) ==
  IF i > Len(t) THEN 0
  ELSE IF t[i] = Q THEN i
  ELSE IF t[i] = BS THEN LitEnd(t, i + 2)
  ELSE LitEnd(t, i + 1)
RECURSIVE Unesc(_, _, _)
Unesc(t, i, j) ==
  IF i >= j THEN <<>>
  ELSE IF t[i] = BS /\ i + 1 < j
       THEN (IF t[i + 1] = LN THEN <<NL>> ELSE IF t[i + 1] = LT THEN <<TAB>> ELSE <<t[i + 1]>>) \o Unesc(t, i + 2, j)
       ELSE <<t[i]>> \o Unesc(t, i + 1, j)
\* reading back the printed form of a string gives the string (C12, strings)
StringRoundTrip(cs) ==
  LET t == StrLit(cs)  e == LitEnd(t, 2) IN
  e = Len(t) /\ Unesc(t, 2, e) = cs

(* Structural equality (C13).  Floats are equal when their canonical text   *)
(* is; dicts when they have the same keys with equal values.                *)
RECURSIVE VEq(_, _)
VEq(a, b) ==
  IF a.k # b.k THEN FALSE
  ELSE CASE a.k \in {"Int", "Float"} -> a.v = b.v
         [] a.k = "Str" -> a.cs = b.cs
         [] a.k \in {"List", "Tuple"} -> Len(a.xs) = Len(b.xs) /\ \A i \in 1..Len(a.xs) : VEq(a.xs[i], b.xs[i])
         [] a.k = "Dict" -> Len(a.ks) = Len(b.ks) /\ \A i \in 1..Len(a.ks) : a.ks[i] = b.ks[i] /\ VEq(a.vs[i], b.vs[i])
         [] a.k = "Enum" -> a.n = b.n /\ a.has = b.has /\ (a.has => VEq(a.p, b.p))
         \* a struct value is its type and a value per field: the order in which a literal lists the fields is
         \* not part of the value (fs is kept in declaration order here)
         [] a.k = "Struct" -> a.n = b.n /\ a.fs = b.fs /\ \A i \in 1..Len(a.vs) : VEq(a.vs[i], b.vs[i])
=============================================================================
