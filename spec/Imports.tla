------------------------------ MODULE Imports ------------------------------
(* Visibility through imports (property C34).  Anchors: src/eval.rs:322-541 *)
(* load_toplevel_items_ (items in file order, the import arm with its       *)
(* paths_seen cycle guard), :620-656 insert_imported_namespace, :7346-7418  *)
(* eval_namespace_access.                                                   *)
(*                                                                          *)
(* A project gives, per file: which names it defines and with which         *)
(* visibility, which files it imports (plainly or `as` an alias), and       *)
(* whether the imports come before or after the definitions.                *)
(*                                                                          *)
(* Two descriptions are given and compared:                                 *)
(*  - ResU / ResQ: what the property states (declarative);                  *)
(*  - Load: what the loader does, step by step, as the code is written.     *)
EXTENDS Integers, Sequences, FiniteSets, TLC

CONSTANTS Files, Names
\* proj[f] = [defs |-> [Names -> {"none", "private", "public", "pubpriv", "privpub"}],   (the last two: defined
\*            twice, first public then private / first private then public; the later definition counts)
\*            imps |-> [Files -> {"none", "plain", "alias"}], importsFirst |-> BOOLEAN]

Defined(proj, f, n) == proj[f].defs[n] # "none"
Public(proj, f, n)  == proj[f].defs[n] \in {"public", "privpub"}
Plain(proj, f, g)   == proj[f].imps[g] = "plain"
Alias(proj, f, g)   == proj[f].imps[g] = "alias"

(* ---- what the property states ------------------------------------------- *)
\* an unqualified name written in file f resolves iff f defines it or plainly imports a file that marks it public
ResU(proj, f, n) == Defined(proj, f, n) \/ \E g \in Files : Plain(proj, f, g) /\ Public(proj, g, n)
\* alias::n written in f resolves iff f imports g under that alias and g marks n public
ResQ(proj, f, g, n) == Alias(proj, f, g) /\ Public(proj, g, n)

(* ---- what the loader does ------------------------------------------------ *)
\* Files are ordered for the enumeration of items; CHOOSE makes the order fixed but arbitrary.
FileSeq == CHOOSE s \in [1..Cardinality(Files) -> Files] : \A i, j \in 1..Cardinality(Files) : i # j => s[i] # s[j]
NameSeq == CHOOSE s \in [1..Cardinality(Names) -> Names] : \A i, j \in 1..Cardinality(Names) : i # j => s[i] # s[j]
ImportItems(proj, f) == LET Keep(g) == proj[f].imps[g] # "none"  sel == SelectSeq(FileSeq, Keep) IN
  [k \in 1..Len(sel) |-> [k |-> "import", g |-> sel[k], n |-> "", pub |-> FALSE]]
RECURSIVE DefsFrom(_, _, _)
DefsFrom(proj, f, i) ==
  IF i > Len(NameSeq) THEN <<>>
  ELSE LET n == NameSeq[i]  d == proj[f].defs[n]
           D(pub) == [k |-> "def", g |-> "", n |-> n, pub |-> pub] IN
       (CASE d = "none" -> <<>> [] d = "private" -> <<D(FALSE)>> [] d = "public" -> <<D(TRUE)>>
          [] d = "pubpriv" -> <<D(TRUE), D(FALSE)>> [] d = "privpub" -> <<D(FALSE), D(TRUE)>>)
       \o DefsFrom(proj, f, i + 1)
DefItems(proj, f) == DefsFrom(proj, f, 1)
Items(proj, f) == IF proj[f].importsFirst THEN ImportItems(proj, f) \o DefItems(proj, f)
                  ELSE DefItems(proj, f) \o ImportItems(proj, f)

\* loader state: vals[f][n] = the file whose definition the name n denotes in f's namespace ("none" if unbound),
\* exported[f], aliases[f] = files bound to an alias in f, seen = paths_seen
\* cyclic = the plain imports of a namespace that was still loading (cyclic_imports), finished at the end
St0 == [vals |-> [f \in Files |-> [n \in Names |-> "none"]], exported |-> [f \in Files |-> {}],
        aliases |-> [f \in Files |-> {}], seen |-> {}, cyclic |-> <<>>]

\* insert_imported_namespace: an alias binds the namespace itself (by reference); a plain import copies, NOW,
\* the values of the imported namespace that are in its exported set
Insert(proj, f, g, st) ==
  IF Alias(proj, f, g) THEN [st EXCEPT !.aliases[f] = @ \cup {g}]
  ELSE IF f = g THEN st          \* a file importing itself: everything is already there
  ELSE [st EXCEPT !.vals[f] = [n \in Names |-> IF st.vals[g][n] # "none" /\ n \in st.exported[g] THEN st.vals[g][n] ELSE @[n]]]

RECURSIVE LoadItems(_, _, _, _)
LoadItems(proj, f, i, st) ==
  LET its == Items(proj, f) IN
  IF i > Len(its) THEN st
  ELSE LET it == its[i] IN
    IF it.k = "def"
    THEN LoadItems(proj, f, i + 1,
           [st EXCEPT !.vals[f][it.n] = f,
                      !.exported[f] = IF it.pub THEN @ \cup {it.n} ELSE @ \ {it.n}])   \* a private definition un-exports the name
    ELSE IF it.g \in st.seen
    THEN \* already loaded or being loaded (a cycle): take what its namespace holds at this moment, and
         \* remember a plain import so that it can be completed when everything is loaded
         LoadItems(proj, f, i + 1,
                   Insert(proj, f, it.g, IF Plain(proj, f, it.g) THEN [st EXCEPT !.cyclic = Append(@, <<f, it.g>>)] ELSE st))
    ELSE LET loaded == LoadItems(proj, it.g, 1, [st EXCEPT !.seen = @ \cup {it.g}]) IN
         LoadItems(proj, f, i + 1, Insert(proj, f, it.g, loaded))

\* finish_cyclic_imports: each remembered importer gets the public items it missed; names it has bound
\* in the meantime stay
RECURSIVE Finish(_, _)
Finish(st, k) ==
  IF k > Len(st.cyclic) THEN st
  ELSE LET f == st.cyclic[k][1]  g == st.cyclic[k][2] IN
       Finish(IF f = g THEN st
              ELSE [st EXCEPT !.vals[f] = [n \in Names |-> IF @[n] = "none" /\ st.vals[g][n] # "none" /\ n \in st.exported[g]
                                                            THEN st.vals[g][n] ELSE @[n]]], k + 1)

\* running `garden run r.gdn`: the root is not in paths_seen
Load(proj, r) == Finish(LoadItems(proj, r, 1, St0), 1)

\* what the loaded program can reach
ReachU(st, f, n)    == st.vals[f][n] # "none"
ReachQ(st, f, g, n) == g \in st.aliases[f] /\ n \in st.exported[g] /\ st.vals[g][n] # "none"
\* files loaded when r is run
Loaded(proj, r) == {r} \cup Load(proj, r).seen

(* ---- the comparison ------------------------------------------------------ *)
RootAgrees(proj, r) ==
  LET st == Load(proj, r) IN
  /\ \A n \in Names : ReachU(st, r, n) <=> ResU(proj, r, n)
  /\ \A g \in Files, n \in Names : ReachQ(st, r, g, n) <=> ResQ(proj, r, g, n)
\* the same inside every loaded file (what its functions can call once loading has finished)
InnerAgrees(proj, r) ==
  LET st == Load(proj, r) IN
  \A f \in Loaded(proj, r) :
    /\ \A n \in Names : ReachU(st, f, n) <=> ResU(proj, f, n)
    /\ \A g \in Files, n \in Names : ReachQ(st, f, g, n) <=> ResQ(proj, f, g, n)
=============================================================================
