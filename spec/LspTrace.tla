------------------------------ MODULE LspTrace ------------------------------
(* Trace validation for Lsp.tla: the client's log of one `garden lsp`       *)
(* process (ndjson, env TRACE): send {kind,id,method,uri,text},             *)
(* recv {kind,id,ok,uri,text}, exit {code}, reset.  Handle is the only      *)
(* silent step; the log must be explained message by message.               *)
EXTENDS Lsp, Json, IOUtils

Rec == ndJsonDeserialize(IOEnv.TRACE)
VARIABLES l, delivered
tvars == <<vars, l, delivered>>

TInit == Init /\ l = 1 /\ delivered = 0 /\ TLCSet(1, 1)

TraceSend ==
  /\ l <= Len(Rec) /\ Rec[l].ev = "send"
  /\ ClientSend([kind |-> Rec[l].kind, id |-> Rec[l].id, method |-> Rec[l].method, uri |-> Rec[l].uri, text |-> Rec[l].text])
  /\ l' = l + 1 /\ UNCHANGED delivered

TraceRecv ==
  /\ l <= Len(Rec) /\ Rec[l].ev = "recv"
  /\ delivered < Len(outbox)
  /\ LET m == outbox[delivered + 1]  e == Rec[l] IN
     /\ m.kind = e.kind /\ m.id = e.id /\ m.ok = e.ok /\ m.uri = e.uri /\ m.text = e.text
  /\ delivered' = delivered + 1
  /\ l' = l + 1 /\ UNCHANGED vars

TraceExit ==
  /\ l <= Len(Rec) /\ Rec[l].ev = "exit"
  /\ ~running /\ exitcode = Rec[l].code
  /\ delivered = Len(outbox)            \* nothing the server wrote is missing from the log
  /\ l' = l + 1 /\ UNCHANGED <<vars, delivered>>

TraceReset ==
  /\ l <= Len(Rec) /\ Rec[l].ev = "reset"
  /\ inbox' = <<>> /\ outbox' = <<>> /\ docs' = <<>> /\ shutdown' = FALSE /\ running' = TRUE /\ exitcode' = -1
  /\ delivered' = 0 /\ l' = l + 1

Silent == Handle /\ UNCHANGED <<l, delivered>>
TraceNext == Silent \/ TraceReset \/ TraceExit \/ TraceSend \/ TraceRecv

Progress ==
  /\ (IF l > TLCGet(1) THEN TLCSet(1, l) ELSE TRUE)
  /\ Len(outbox) - delivered <= 3
TraceInv == ResponseDiscipline
Accepted ==
  IF TLCGet(1) = Len(Rec) + 1 THEN TRUE
  ELSE /\ PrintT(<<"UNMATCHED", ToJson([index |-> TLCGet(1), event |-> Rec[TLCGet(1)]])>>)
       /\ FALSE
=============================================================================
