---------------------------- MODULE JsonSession ----------------------------
(* The JSON session front door (anchors: src/json_session.rs:215-232 the    *)
(* eval worker, :491-511 the reader, :513-562 dispatch, :564-652 commands): *)
(* a reader thread takes request lines; `interrupt` is handled on the       *)
(* reader itself (sets the flag, prints an ack), every other line goes      *)
(* through an mpsc channel to the single worker, which owns the session     *)
(* state and prints exactly one response per line, whatever its state.      *)
(*                                                                          *)
(* The session state is abstracted to what decides the shape of answers:    *)
(*   stopped  an evaluation is stopped and could be resumed                 *)
(*   deep     the stopped evaluation is in a callee frame                   *)
(* Each request symbol has a set of admissible answer kinds in each state   *)
(* (the spec is deliberately less deterministic than the code: which value, *)
(* which error).  C09 is OneResponsePerRequest + the liveness of Worker.    *)
EXTENDS Integers, Sequences, TLC, Json

CONSTANTS MaxLen,       \* histories of at most this many requests
          Allowed       \* the request symbols (indices into Alphabet) the client may send

\* request alphabet: [sym, class] ; classes decide the admissible answers
Alphabet == <<
  [sym |-> "def",      class |-> "source"],     \* fun f() { ... throw deep inside blocks ... }
  [sym |-> "let",      class |-> "source"],     \* let x = 1
  [sym |-> "read",     class |-> "source"],     \* x
  [sym |-> "callthrow", class |-> "source"],    \* f()
  [sym |-> "badprint", class |-> "source"],     \* print(1)
  [sym |-> "badif",    class |-> "source"],     \* if 1 { println("x") }
  [sym |-> "badwhile", class |-> "source"],     \* while 1 { }
  [sym |-> "badmatch", class |-> "source"],     \* match 1 { Some(v) => 1 }
  [sym |-> "badfor",   class |-> "source"],     \* for v in 5 { }
  [sym |-> "deftest",  class |-> "source"],     \* test t { assert(1 == 2) }
  [sym |-> "parseerr", class |-> "source"],     \* let = =
  [sym |-> "resume",   class |-> "evalcmd"],
  [sym |-> "skip",     class |-> "evalcmd"],
  [sym |-> "replaceT", class |-> "evalcmd"],    \* :replace True
  [sym |-> "replace5", class |-> "evalcmd"],    \* :replace 5
  [sym |-> "test",     class |-> "evalcmd"],    \* :test t
  [sym |-> "abort",    class |-> "cmd"],
  [sym |-> "forget",   class |-> "cmd"],        \* :forget f
  [sym |-> "forgetlocal", class |-> "cmd"],     \* :forget_local x
  [sym |-> "type",     class |-> "cmd"],        \* :type x
  [sym |-> "locals",   class |-> "cmd"],
  [sym |-> "stack",    class |-> "cmd"],
  [sym |-> "fstmts",   class |-> "cmd"],
  [sym |-> "fvalues",  class |-> "cmd"],
  [sym |-> "nosuchcmd", class |-> "cmd"],       \* :frobnicate
  [sym |-> "evalupto", class |-> "evalupto"],
  [sym |-> "garbage",  class |-> "malformed"],  \* not JSON
  \* composite requests that reach a stopped state in one step
  [sym |-> "stopthrow", class |-> "source"],    \* def + f()
  [sym |-> "stopnovar", class |-> "source"],    \* fun h() { nosuchvar1 } h()  (stopped with an empty value stack but Unit)
  [sym |-> "stoparg",  class |-> "source"],     \* fun k(a: Int, b: Int) { a } k(1, nosuchvar3)  (stopped with values pending)
  [sym |-> "stoptest", class |-> "source"],     \* test t2 { assert(1 == 2) } then the test runs and fails
  [sym |-> "replaceBad", class |-> "evalcmd"],  \* :replace nosuchvar2
  [sym |-> "replaceCall", class |-> "evalcmd"], \* :replace f()
  \* the rest of the command vocabulary (src/commands.rs:131-159)
  [sym |-> "doc",      class |-> "cmd"],        \* :doc f
  [sym |-> "docnone",  class |-> "cmd"],        \* :doc
  [sym |-> "help",     class |-> "cmd"],        \* :help
  [sym |-> "funs",     class |-> "cmd"],
  [sym |-> "globals",  class |-> "cmd"],
  [sym |-> "methods",  class |-> "cmd"],        \* :methods String
  [sym |-> "methodsnone", class |-> "cmd"],     \* :methods
  [sym |-> "namespace", class |-> "cmd"],       \* :namespace
  [sym |-> "nsswitch", class |-> "cmd"],        \* :namespace __user.gdn  (switches to another namespace)
  [sym |-> "namespaces", class |-> "cmd"],
  [sym |-> "parse",    class |-> "cmd"],        \* :parse 1 +
  [sym |-> "parsenone", class |-> "cmd"],       \* :parse
  [sym |-> "search",   class |-> "cmd"],        \* :search pr
  [sym |-> "source",   class |-> "cmd"],        \* :source f
  [sym |-> "types",    class |-> "cmd"],
  [sym |-> "uptime",   class |-> "cmd"],
  [sym |-> "version",  class |-> "cmd"],
  [sym |-> "forgetcalls", class |-> "cmd"],     \* :forget_calls
  [sym |-> "loadmissing", class |-> "cmd"],     \* :load /nonexistent.gdn
  [sym |-> "loadfile", class |-> "cmd"],        \* :load lib.gdn  (defines g, which throws)
  [sym |-> "trace",    class |-> "cmd"],        \* :trace  (toggles; trace text must travel as `printed` responses)
  [sym |-> "quit",     class |-> "quit"],       \* :quit  ends the process: the one request that is not answered
  \* inputs with characters of more than one byte where commands are split from their arguments
  [sym |-> "nbspcmd",  class |-> "cmd"],        \* :doc<U+00A0>f
  [sym |-> "unicmd",   class |-> "cmd"],        \* :<U+00E9>t<U+00E9> x
  [sym |-> "widecmd",  class |-> "cmd"],        \* :type<U+3000>x
  [sym |-> "nbspsrc",  class |-> "source"],     \* 1<U+00A0>+ 1
  \* `load` requests and client-supplied byte ranges that do not fit the text they come with
  [sym |-> "loadreq",  class |-> "source"],     \* load: fun g2() { 1 } with its exact range
  [sym |-> "loadfar",  class |-> "source"],     \* load with end_offset beyond the text
  [sym |-> "loadinv",  class |-> "source"],     \* load with offset > end_offset
  [sym |-> "runspan",  class |-> "source"],     \* run with path and a range beyond the text
  [sym |-> "runmid",   class |-> "source"],     \* run with a range that starts inside a multi-byte character
  [sym |-> "evalfar",  class |-> "evalupto"]    \* eval_up_to with an offset beyond the text
>>

\* admissible answer kinds per request class (independent of the state:
\* that is the point of the property)
Admissible(class) ==
  CASE class = "source"    -> {"value", "error"}
    [] class = "evalcmd"   -> {"value", "error", "command", "malformed"}
    [] class = "cmd"       -> {"command", "value", "error"}
    [] class = "evalupto"  -> {"value", "error"}
    [] class = "malformed" -> {"malformed"}
    [] class = "quit"      -> {}                 \* handled by Quit, not by Worker

VARIABLES hist,       \* request symbols sent so far (indices into Alphabet)
          chan,       \* mpsc channel reader -> worker (request numbers)
          answered,   \* sequence of [for |-> request number, kind |-> ...] in print order
          stopped,    \* abstract session state
          alive,      \* the worker thread is alive
          quitAt      \* 0, or the number of the :quit request that ended the process

vars == <<hist, chan, answered, stopped, alive, quitAt>>

Init == hist = <<>> /\ chan = <<>> /\ answered = <<>> /\ stopped = FALSE /\ alive = TRUE /\ quitAt = 0

\* the client writes a line; the reader forwards it
Send(a) ==
  /\ a \in Allowed
  /\ Len(hist) < MaxLen
  /\ hist' = Append(hist, a)
  /\ chan' = IF alive THEN Append(chan, Len(hist) + 1) ELSE chan    \* written to a process that is gone
  /\ UNCHANGED <<answered, stopped, alive, quitAt>>

\* the worker handles the head of the channel and prints one answer
Worker ==
  /\ alive /\ chan # <<>>
  /\ LET n == Head(chan)  r == Alphabet[hist[n]] IN
     \E k \in Admissible(r.class) :
        /\ answered' = Append(answered, [for |-> n, kind |-> k])
        /\ stopped' = IF r.class \in {"source", "evalcmd"} THEN (k = "error")
                      ELSE IF r.sym = "abort" THEN FALSE ELSE stopped
  /\ chan' = Tail(chan)
  /\ UNCHANGED <<hist, alive, quitAt>>

\* :quit (src/commands.rs Command::Quit: std::process::exit(0)): the worker
\* ends the process without an answer; whatever the reader had queued or
\* reads later is never served.  A deliberate deviation from "every request
\* is answered", named here rather than hidden in Worker.
Quit ==
  /\ alive /\ chan # <<>>
  /\ Alphabet[hist[Head(chan)]].class = "quit"
  /\ quitAt' = Head(chan)
  /\ alive' = FALSE
  /\ chan' = <<>>
  /\ UNCHANGED <<hist, answered, stopped>>

Next == (\E a \in 1..Len(Alphabet) : Send(a)) \/ Worker \/ Quit

Spec == Init /\ [][Next]_vars /\ WF_vars(Worker) /\ WF_vars(Quit)

(* C09 *)
OneResponsePerRequest ==
  /\ Len(answered) <= Len(hist)
  /\ \A i \in 1..Len(answered) : answered[i].for = i        \* in request order, exactly once
Quiescent == chan = <<>>
\* every request before the first :quit the worker reached is answered; nothing after it
Due == IF quitAt = 0 THEN Len(hist) ELSE quitAt - 1
AllAnswered == Quiescent => Len(answered) = Due
EventuallyAnswered == <>[](Len(hist) = MaxLen => Len(answered) = Due)
\* the process ends only by :quit
DiesOnlyByQuit == alive <=> quitAt = 0

\* One REPLAY line per complete history (emitted from the quiescent state
\* that has sent MaxLen requests and answered them all).
Emit ==
  (Len(hist) = MaxLen /\ chan = <<>>) =>
     PrintT(<<"HISTORY", ToJson([syms |-> [i \in 1..Len(hist) |-> Alphabet[hist[i]].sym]])>>)

\* Histories are what matters for the replay; answers are nondeterministic
\* and would multiply states: the view keeps one state per history prefix.
View == <<hist, Len(chan), quitAt>>
=============================================================================
