------------------------------ MODULE EvalRef ------------------------------
(* Driver: evaluate Ref!Run on every program in the ndjson file named by   *)
(* the environment variable PROGS and print one EXPECT line per program.   *)
(* State i = 0 fans out to one state per program, so TLC workers evaluate  *)
(* programs in parallel; each program is one state, one transition.        *)
EXTENDS Ref, Json, IOUtils

Progs == ndJsonDeserialize(IOEnv.PROGS)
Fuel == 300

VARIABLES i, done
Init == i = 0 /\ done = FALSE
Pick == i = 0 /\ i' \in 1..Len(Progs) /\ done' = FALSE
Evaluate ==
  /\ i > 0 /\ ~done
  /\ LET r == Run(Progs[i], Fuel) IN
     PrintT(<<"EXPECT", ToJson([id |-> Progs[i].id, outcome |-> r.outcome, out |-> r.out,
                                ek |-> r.ek, line |-> r.line, value |-> r.value, watch |-> r.watch])>>)
  /\ done' = TRUE /\ i' = i
Next == Pick \/ Evaluate
=============================================================================
