INIT Init
NEXT Next
INVARIANT Refines
CHECK_DEADLOCK FALSE
