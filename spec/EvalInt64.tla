----------------------------- MODULE EvalInt64 -----------------------------
(* Evaluate the 64-bit limb operators on the cases of the ndjson file named *)
(* by CASES: {id, op, a: 8 limbs, b: 8 limbs}; one EXPECT line per case.    *)
EXTENDS Int64, Json, IOUtils
Cases == ndJsonDeserialize(IOEnv.CASES)
VARIABLES i, done
Init == i = 0 /\ done = FALSE
Pick == i = 0 /\ i' \in 1..Len(Cases) /\ done' = FALSE
Evaluate ==
  /\ i > 0 /\ ~done
  /\ LET c == Cases[i]  r == LOp(c.op, c.a, c.b) IN
     PrintT(<<"EXPECT", ToJson([id |-> c.id, ok |-> r.ok, v |-> r.v, err |-> r.err])>>)
  /\ done' = TRUE /\ i' = i
Next == Pick \/ Evaluate
=============================================================================
