------------------------------ MODULE Values ------------------------------
(* The value domain of the Garden core language, its printed form and its   *)
(* structural equality.  Anchors: src/values.rs (Value_, PartialEq,         *)
(* Value::display, escape_string_literal), src/eval.rs (eval_int_binop).    *)
(*                                                                          *)
(* Every value is a record with a kind field k, so that specs can always    *)
(* dispatch on v.k before touching any other field.                         *)
EXTENDS Integers, Sequences, TLC

IntV(n)   == [k |-> "Int", v |-> n]
StrV(s)   == [k |-> "Str", v |-> s]
ListV(xs) == [k |-> "List", v |-> xs]
TupV(xs)  == [k |-> "Tuple", v |-> xs]
\* Enum values cover Unit, Bool, Option, Result and user enums.
EnumV(name, has, p) == [k |-> "Enum", n |-> name, has |-> has, p |-> p]
NoPayload == [k |-> "None"]
UnitV     == EnumV("Unit", FALSE, NoPayload)
BoolV(b)  == EnumV(IF b THEN "True" ELSE "False", FALSE, NoPayload)
SomeV(v)  == EnumV("Some", TRUE, v)
NoneV     == EnumV("None", FALSE, NoPayload)
\* A struct value: its type name and a value per field, in the order the literal listed them (which is
\* the order it is printed in, and which equality ignores).
StructV(name, fs) == [k |-> "Struct", n |-> name, fs |-> fs]     \* fs: sequence of [n |-> field, v |-> value]
\* A dictionary: string keys, kept sorted by key and without duplicates (the canonical form: equality and
\* the printed form of the implementation do not depend on insertion order).
DictV(kvs) == [k |-> "Dict", kv |-> kvs]                          \* kvs: sequence of [k |-> key string, v |-> value]
CloV(ps, b, env, rt, line) == [k |-> "Clo", ps |-> ps, b |-> b, env |-> env, rt |-> rt, line |-> line]
FunV(name) == [k |-> "Fun", n |-> name]

IsInt(v)  == v.k = "Int"
IsStr(v)  == v.k = "Str"
IsList(v) == v.k = "List"
IsDict(v) == v.k = "Dict"
IsBool(v) == v.k = "Enum" /\ ~v.has /\ v.n \in {"True", "False"}
IsTrue(v) == v.n = "True"

(* Structural equality (property C13): kinds first, then contents.          *)
RECURSIVE ValEq(_, _)
RECURSIVE SeqEq(_, _, _)
SeqEq(a, b, i) ==
  IF i > Len(a) THEN TRUE
  ELSE IF ValEq(a[i], b[i]) THEN SeqEq(a, b, i + 1) ELSE FALSE
ValEq(a, b) ==
  IF a.k # b.k THEN FALSE
  ELSE CASE a.k = "Int" -> a.v = b.v
         [] a.k = "Str" -> a.v = b.v
         [] a.k \in {"List", "Tuple"} ->
              IF Len(a.v) # Len(b.v) THEN FALSE ELSE SeqEq(a.v, b.v, 1)
         [] a.k = "Enum" ->
              IF a.n # b.n \/ a.has # b.has THEN FALSE
              ELSE IF a.has THEN ValEq(a.p, b.p) ELSE TRUE
         [] a.k = "None" -> TRUE
         [] a.k = "Struct" ->
              a.n = b.n /\ Len(a.fs) = Len(b.fs)
              /\ \A i \in 1..Len(a.fs) : \E j \in 1..Len(b.fs) : a.fs[i].n = b.fs[j].n /\ ValEq(a.fs[i].v, b.fs[j].v)
         [] a.k = "Dict" ->
              Len(a.kv) = Len(b.kv)
              /\ \A i \in 1..Len(a.kv) : a.kv[i].k = b.kv[i].k /\ ValEq(a.kv[i].v, b.kv[i].v)
         [] OTHER -> FALSE   \* closures and function references: never equal here

(* The name of a value's runtime type: what method dispatch goes by         *)
(* (src/eval.rs eval_method_call: type_representation of the receiver).      *)
TypeName(v) ==
  CASE v.k = "Int" -> "Int"
    [] v.k = "Str" -> "String"
    [] v.k = "List" -> "List"
    [] v.k = "Tuple" -> "Tuple"
    [] v.k = "Dict" -> "Dict"
    [] v.k = "Struct" -> v.n
    [] v.k = "Enum" -> (CASE v.n \in {"True", "False"} -> "Bool"
                          [] v.n = "Unit" -> "Unit"
                          [] v.n \in {"Some", "None"} -> "Option"
                          [] v.n \in {"Ok", "Err"} -> "Result"
                          [] OTHER -> "E1")          \* the one user enum of generated programs
    [] OTHER -> "Fun"

(* Byte order on the strings used as dictionary keys.  TLC has no order on  *)
(* strings, so it is defined through the rank of each character in the      *)
(* ASCII-ordered alphabet below (keys of generated programs use no others). *)
KeyChars == " 0123456789ABCDEFGHIJKLMNOPQRSTUVWXYZ_abcdefghijklmnopqrstuvwxyz"
CharRank(c) == CHOOSE i \in 1..Len(KeyChars) : SubSeq(KeyChars, i, i) = c
RECURSIVE StrLessFrom(_, _, _)
StrLessFrom(a, b, i) ==
  IF i > Len(b) THEN FALSE                       \* b is a prefix of a (or equal)
  ELSE IF i > Len(a) THEN TRUE                   \* a is a proper prefix of b
  ELSE LET x == CharRank(SubSeq(a, i, i))  y == CharRank(SubSeq(b, i, i)) IN
       IF x # y THEN x < y ELSE StrLessFrom(a, b, i + 1)
StrLess(a, b) == StrLessFrom(a, b, 1)

\* d with key k bound to v (replacing an existing binding), and d without key k
DictRemoveKey(kvs, k) == SelectSeq(kvs, LAMBDA e : e.k # k)
DictSetKey(kvs, k, v) ==
  LET rest == DictRemoveKey(kvs, k) IN
  SelectSeq(rest, LAMBDA e : StrLess(e.k, k)) \o <<[k |-> k, v |-> v]>> \o SelectSeq(rest, LAMBDA e : StrLess(k, e.k))

(* Printed form (Value::display / string_repr).  Strings here are plain:    *)
(* the escaping rules are specified separately in Display.tla over          *)
(* character sequences.                                                     *)
RECURSIVE Disp(_)
RECURSIVE DispSeq(_, _)
RECURSIVE DispFields(_, _)
RECURSIVE DispKVs(_, _)
DispSeq(xs, i) ==
  IF i > Len(xs) THEN ""
  ELSE Disp(xs[i]) \o (IF i < Len(xs) THEN ", " \o DispSeq(xs, i + 1) ELSE "")
DispFields(fs, i) ==
  IF i > Len(fs) THEN ""
  ELSE fs[i].n \o ": " \o Disp(fs[i].v) \o (IF i < Len(fs) THEN ", " \o DispFields(fs, i + 1) ELSE "")
DispKVs(kvs, i) ==
  IF i > Len(kvs) THEN ""
  ELSE "\"" \o kvs[i].k \o "\" => " \o Disp(kvs[i].v) \o (IF i < Len(kvs) THEN ", " \o DispKVs(kvs, i + 1) ELSE "")
Disp(v) ==
  CASE v.k = "Int"   -> ToString(v.v)
    [] v.k = "Str"   -> "\"" \o v.v \o "\""
    [] v.k = "List"  -> "[" \o DispSeq(v.v, 1) \o "]"
    [] v.k = "Tuple" -> IF Len(v.v) = 1 THEN "(" \o Disp(v.v[1]) \o ",)"
                        ELSE "(" \o DispSeq(v.v, 1) \o ")"
    [] v.k = "Enum"  -> IF v.has THEN v.n \o "(" \o Disp(v.p) \o ")" ELSE v.n
    [] v.k = "Struct" -> v.n \o "{ " \o DispFields(v.fs, 1) \o " }"
    [] v.k = "Dict"  -> "Dict[" \o DispKVs(v.kv, 1) \o "]"
    [] OTHER         -> "<fun>"

(* Integer arithmetic on mathematical integers, guarded by a magnitude      *)
(* bound so that TLC's 32-bit integers never overflow: results outside      *)
(* (-Big, Big) are reported as "big" and the caller discards the program.   *)
(* The exact 64-bit behaviour is specified in Int64.tla.                    *)
Big == 1000000000
Abs(n) == IF n < 0 THEN -n ELSE n
TruncDiv(a, b) ==
  LET q == Abs(a) \div Abs(b) IN IF (a < 0) # (b < 0) THEN -q ELSE q
EuclidRem(a, b) ==
  LET r == Abs(a) % Abs(b) IN
  IF a >= 0 THEN r ELSE IF r = 0 THEN 0 ELSE Abs(b) - r
\* Is a * b computable without leaving TLC's integers?
MulOk(a, b) == a = 0 \/ Abs(b) <= 2000000000 \div Abs(a)
\* a * b, or Big when the product is not below the bound.
MulG(a, b) == IF ~MulOk(a, b) THEN Big ELSE IF Abs(a * b) >= Big THEN Big ELSE a * b
RECURSIVE PowG(_, _)
\* a ** b for b >= 0, or Big if any intermediate reaches the bound.
PowG(a, b) ==
  IF b = 0 THEN 1
  ELSE LET r == PowG(a, b - 1) IN
       IF Abs(r) >= Big THEN Big ELSE MulG(r, a)
=============================================================================
