------------------------------ MODULE Values ------------------------------
(* The value domain of the Garden core language, its printed form and its   *)
(* structural equality.  Anchors: src/values.rs (Value_, PartialEq,         *)
(* Value::display, escape_string_literal), src/eval.rs (eval_int_binop).    *)
(*                                                                          *)
(* Every value is a record with a kind field k, so that specs can always    *)
(* dispatch on v.k before touching any other field.                         *)
EXTENDS Integers, Sequences, TLC

IntV(n)   == [k |-> "Int", v |-> n]
StrV(s)   == [k |-> "Str", v |-> s]
ListV(xs) == [k |-> "List", v |-> xs]
TupV(xs)  == [k |-> "Tuple", v |-> xs]
\* Enum values cover Unit, Bool, Option, Result and user enums.
EnumV(name, has, p) == [k |-> "Enum", n |-> name, has |-> has, p |-> p]
NoPayload == [k |-> "None"]
UnitV     == EnumV("Unit", FALSE, NoPayload)
BoolV(b)  == EnumV(IF b THEN "True" ELSE "False", FALSE, NoPayload)
SomeV(v)  == EnumV("Some", TRUE, v)
NoneV     == EnumV("None", FALSE, NoPayload)
\* A struct value: its type name and a value per field, in the order the literal listed them (which is
\* the order it is printed in, and which equality ignores).
StructV(name, fs) == [k |-> "Struct", n |-> name, fs |-> fs]     \* fs: sequence of [n |-> field, v |-> value]
CloV(ps, b, env, rt, line) == [k |-> "Clo", ps |-> ps, b |-> b, env |-> env, rt |-> rt, line |-> line]
FunV(name) == [k |-> "Fun", n |-> name]

IsInt(v)  == v.k = "Int"
IsStr(v)  == v.k = "Str"
IsList(v) == v.k = "List"
IsBool(v) == v.k = "Enum" /\ ~v.has /\ v.n \in {"True", "False"}
IsTrue(v) == v.n = "True"

(* Structural equality (property C13): kinds first, then contents.          *)
RECURSIVE ValEq(_, _)
RECURSIVE SeqEq(_, _, _)
SeqEq(a, b, i) ==
  IF i > Len(a) THEN TRUE
  ELSE IF ValEq(a[i], b[i]) THEN SeqEq(a, b, i + 1) ELSE FALSE
ValEq(a, b) ==
  IF a.k # b.k THEN FALSE
  ELSE CASE a.k = "Int" -> a.v = b.v
         [] a.k = "Str" -> a.v = b.v
         [] a.k \in {"List", "Tuple"} ->
              IF Len(a.v) # Len(b.v) THEN FALSE ELSE SeqEq(a.v, b.v, 1)
         [] a.k = "Enum" ->
              IF a.n # b.n \/ a.has # b.has THEN FALSE
              ELSE IF a.has THEN ValEq(a.p, b.p) ELSE TRUE
         [] a.k = "None" -> TRUE
         [] a.k = "Struct" ->
              a.n = b.n /\ Len(a.fs) = Len(b.fs)
              /\ \A i \in 1..Len(a.fs) : \E j \in 1..Len(b.fs) : a.fs[i].n = b.fs[j].n /\ ValEq(a.fs[i].v, b.fs[j].v)
         [] OTHER -> FALSE   \* closures and function references: never equal here

(* Printed form (Value::display / string_repr).  Strings here are plain:    *)
(* the escaping rules are specified separately in Display.tla over          *)
(* character sequences.                                                     *)
RECURSIVE Disp(_)
RECURSIVE DispSeq(_, _)
RECURSIVE DispFields(_, _)
DispSeq(xs, i) ==
  IF i > Len(xs) THEN ""
  ELSE Disp(xs[i]) \o (IF i < Len(xs) THEN ", " \o DispSeq(xs, i + 1) ELSE "")
DispFields(fs, i) ==
  IF i > Len(fs) THEN ""
  ELSE fs[i].n \o ": " \o Disp(fs[i].v) \o (IF i < Len(fs) THEN ", " \o DispFields(fs, i + 1) ELSE "")
Disp(v) ==
  CASE v.k = "Int"   -> ToString(v.v)
    [] v.k = "Str"   -> "\"" \o v.v \o "\""
    [] v.k = "List"  -> "[" \o DispSeq(v.v, 1) \o "]"
    [] v.k = "Tuple" -> IF Len(v.v) = 1 THEN "(" \o Disp(v.v[1]) \o ",)"
                        ELSE "(" \o DispSeq(v.v, 1) \o ")"
    [] v.k = "Enum"  -> IF v.has THEN v.n \o "(" \o Disp(v.p) \o ")" ELSE v.n
    [] v.k = "Struct" -> v.n \o "{ " \o DispFields(v.fs, 1) \o " }"
    [] OTHER         -> "<fun>"

(* Integer arithmetic on mathematical integers, guarded by a magnitude      *)
(* bound so that TLC's 32-bit integers never overflow: results outside      *)
(* (-Big, Big) are reported as "big" and the caller discards the program.   *)
(* The exact 64-bit behaviour is specified in Int64.tla.                    *)
Big == 1000000000
Abs(n) == IF n < 0 THEN -n ELSE n
TruncDiv(a, b) ==
  LET q == Abs(a) \div Abs(b) IN IF (a < 0) # (b < 0) THEN -q ELSE q
EuclidRem(a, b) ==
  LET r == Abs(a) % Abs(b) IN
  IF a >= 0 THEN r ELSE IF r = 0 THEN 0 ELSE Abs(b) - r
\* Is a * b computable without leaving TLC's integers?
MulOk(a, b) == a = 0 \/ Abs(b) <= 2000000000 \div Abs(a)
\* a * b, or Big when the product is not below the bound.
MulG(a, b) == IF ~MulOk(a, b) THEN Big ELSE IF Abs(a * b) >= Big THEN Big ELSE a * b
RECURSIVE PowG(_, _)
\* a ** b for b >= 0, or Big if any intermediate reaches the bound.
PowG(a, b) ==
  IF b = 0 THEN 1
  ELSE LET r == PowG(a, b - 1) IN
       IF Abs(r) >= Big THEN Big ELSE MulG(r, a)
=============================================================================
