CONSTANTS
  MaxLen = 2
SPECIFICATION Spec
INVARIANT OneResponsePerRequest
PROPERTY EventuallyAnswered
CHECK_DEADLOCK FALSE
