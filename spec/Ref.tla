-------------------------------- MODULE Ref --------------------------------
(* Reference semantics of the Garden core language: a big-step evaluator    *)
(* in the ordinary textbook style (environments, values, control signals    *)
(* break / continue / return / error).  It is the oracle for C05 and the    *)
(* behavioural oracle for the refactoring properties; Machine.tla (the      *)
(* explicit-stack evaluator shaped like src/eval.rs) is checked against it. *)
(*                                                                          *)
(* Programs are JSON ASTs (see tools/gen_prog.py):                          *)
(*   prog = [funs |-> <<[n, ps, b, line]>>, main |-> <<stmt>>]              *)
(* Every node has fields k (kind) and line.  Beyond the core kinds the      *)
(* evaluator covers struct literals and field access (slit, dot), tuple     *)
(* destructuring in let and for (letd, ford) and try blocks (try); they are *)
(* not (yet) in Machine.tla, so only the Ref-based checks generate them.    *)
(*                                                                          *)
(* Clauses tagged PINNED encode observable choices of the implementation    *)
(* that the language documentation does not spell out (DESIGN.md §5.7).     *)
EXTENDS Values, FiniteSets

EmptyBlk == [x \in {} |-> 0]
Bind(blk, x, v) == (x :> v) @@ blk

\* State threaded through evaluation: block stack of the current frame,
\* everything printed so far, remaining fuel.
\* w: what the watched expression (node kind "watch", property C27) evaluated
\* to the first time an evaluation of it completed; "-" while that has not happened.
St(bl, out, fuel) == [bl |-> bl, out |-> out, fuel |-> fuel, depth |-> 0, w |-> "-"]
MaxDepth == 25

\* Result of evaluating something.
\*   c: "ok" | "break" | "continue" | "return" | "error" | "fuel" | "big"
R(c, v, s, ek, line) == [c |-> c, v |-> v, s |-> s, ek |-> ek, line |-> line]
Ok(v, s)  == R("ok", v, s, "", 0)
Err(ek, line, s) == R("error", UnitV, s, ek, line)
BigR(s) == R("big", UnitV, s, "", 0)

RECURSIVE FindBlk(_, _, _)
\* Index of the innermost block binding x, or 0.
FindBlk(bl, x, i) ==
  IF i = 0 THEN 0 ELSE IF x \in DOMAIN bl[i] THEN i ELSE FindBlk(bl, x, i - 1)

FunIdx(prog, name) ==
  LET S == {i \in 1..Len(prog.funs) : prog.funs[i].n = name} IN
  IF S = {} THEN 0 ELSE CHOOSE i \in S : \A j \in S : i >= j   \* a later definition wins

PushBlk(s, blk) == [s EXCEPT !.bl = Append(@, blk)]
PopBlk(r) == [r EXCEPT !.s.bl = SubSeq(@, 1, Len(@) - 1)]

IntBin(op, a, b, line, s) ==
  CASE op = "+" -> IF Abs(a + b) >= Big THEN BigR(s) ELSE Ok(IntV(a + b), s)
    [] op = "-" -> IF Abs(a - b) >= Big THEN BigR(s) ELSE Ok(IntV(a - b), s)
    [] op = "*" -> IF MulG(a, b) = Big THEN BigR(s) ELSE Ok(IntV(a * b), s)
    [] op = "/" -> IF b = 0 THEN Err("DivZero", line, s) ELSE Ok(IntV(TruncDiv(a, b)), s)
    [] op = "%" -> IF b = 0 THEN Err("DivZero", line, s) ELSE Ok(IntV(EuclidRem(a, b)), s)
    [] op = "**" -> IF b < 0 THEN Err("NegExponent", line, s)
                    ELSE IF b > 30 THEN BigR(s)
                    ELSE IF PowG(a, b) = Big THEN BigR(s)
                    ELSE Ok(IntV(PowG(a, b)), s)
    [] op = "<"  -> Ok(BoolV(a < b), s)
    [] op = "<=" -> Ok(BoolV(a <= b), s)
    [] op = ">"  -> Ok(BoolV(a > b), s)
    [] op = ">=" -> Ok(BoolV(a >= b), s)

IntOps == {"+", "-", "*", "/", "%", "**", "<", "<=", ">", ">="}

RECURSIVE Eval(_, _, _)
RECURSIVE EvalSeq(_, _, _, _, _)
RECURSIVE EvalItemsRev(_, _, _, _, _)
RECURSIVE WhileLoop(_, _, _)
RECURSIVE ForLoop(_, _, _, _, _)
RECURSIVE BindParams(_, _, _, _)
RECURSIVE MatchArms(_, _, _, _, _)
RECURSIVE CallValue(_, _, _, _, _)

\* Evaluate statements i..Len(stmts) in the current scope; `last` is the
\* value of the previous statement (Unit for an empty sequence).
EvalSeq(prog, stmts, i, s, last) ==
  IF i > Len(stmts) THEN Ok(last, s)
  ELSE LET r == Eval(prog, stmts[i], s) IN
       IF r.c # "ok" THEN r ELSE EvalSeq(prog, stmts, i + 1, r.s, r.v)

\* A block: fresh scope holding `pre`, dropped on EVERY exit (C06).
EvalBlock(prog, stmts, s, pre) ==
  PopBlk(EvalSeq(prog, stmts, 1, PushBlk(s, pre), UnitV))

\* PINNED: list / tuple elements and call arguments are evaluated last to
\* first.  acc collects values in source order.
EvalItemsRev(prog, xs, i, s, acc) ==
  IF i = 0 THEN R("ok", TupV(acc), s, "", 0)
  ELSE LET r == Eval(prog, xs[i], s) IN
       IF r.c # "ok" THEN r ELSE EvalItemsRev(prog, xs, i - 1, r.s, <<r.v>> \o acc)

WhileLoop(prog, e, s) ==
  IF s.fuel = 0 THEN R("fuel", UnitV, s, "", 0)
  ELSE
  LET rc == Eval(prog, e.c, [s EXCEPT !.fuel = @ - 1]) IN
  IF rc.c # "ok" THEN rc
  ELSE IF ~IsBool(rc.v) THEN Err("TypeError", e.c.line, rc.s)
  ELSE IF ~IsTrue(rc.v) THEN Ok(UnitV, rc.s)
  ELSE LET rb == EvalBlock(prog, e.b, rc.s, EmptyBlk) IN
       CASE rb.c \in {"ok", "continue"} -> WhileLoop(prog, e, rb.s)
         [] rb.c = "break" -> Ok(UnitV, rb.s)
         [] OTHER -> rb

\* the bindings a loop item gives: one name, or (for `for (a, b) in ...`) one per tuple component
ForBinds(e, x) == IF "ns" \in DOMAIN e THEN BindParams(e.ns, x.v, 1, EmptyBlk) ELSE Bind(EmptyBlk, e.n, x)
ForItemOk(e, x) == "ns" \notin DOMAIN e \/ (x.k = "Tuple" /\ Len(x.v) = Len(e.ns))

ForLoop(prog, e, xs, i, s) ==
  IF i > Len(xs) THEN Ok(UnitV, s)
  ELSE IF s.fuel = 0 THEN R("fuel", UnitV, s, "", 0)
  ELSE IF ~ForItemOk(e, xs[i]) THEN Err("TypeError", e.it.line, s)
  ELSE LET rb == EvalBlock(prog, e.b, [s EXCEPT !.fuel = @ - 1], ForBinds(e, xs[i])) IN
       CASE rb.c \in {"ok", "continue"} -> ForLoop(prog, e, xs, i + 1, rb.s)
         [] rb.c = "break" -> Ok(UnitV, rb.s)
         [] OTHER -> rb

\* First arm whose pattern matches the scrutinee.
MatchArms(prog, e, v, i, s) ==
  IF i > Len(e.arms) THEN Err("NoCase", e.s.line, s)
  ELSE LET a == e.arms[i] IN
       IF a.wild THEN EvalBlock(prog, a.b, s, EmptyBlk)
       ELSE IF a.v = v.n
            THEN EvalBlock(prog, a.b, s,
                           IF a.bind # "" /\ v.has THEN Bind(EmptyBlk, a.bind, v.p) ELSE EmptyBlk)
            ELSE MatchArms(prog, e, v, i + 1, s)

\* Runtime check of a value against a declared simple type.
HasType(v, t) ==
  CASE t = "Int" -> IsInt(v)
    [] t = "String" -> IsStr(v)
    [] t = "Bool" -> IsBool(v)
    [] t = "List<Int>" -> IsList(v) /\ \A i \in 1..Len(v.v) : IsInt(v.v[i])
    [] t = "List<String>" -> IsList(v) /\ \A i \in 1..Len(v.v) : IsStr(v.v[i])
    [] OTHER -> TRUE

BindParams(ps, args, i, blk) ==
  IF i > Len(ps) THEN blk ELSE BindParams(ps, args, i + 1, Bind(blk, ps[i], args[i]))

\* Apply a function value to evaluated arguments.  The callee runs in its
\* own frame: named functions see only their parameters (PINNED: not the
\* top-level variables); closures see a copy of the blocks captured at
\* creation (PINNED: assignments inside do not escape and do not persist
\* between calls).
CallValue(prog, f, args, line, s) ==
  IF s.fuel = 0 \/ s.depth >= MaxDepth THEN R("fuel", UnitV, s, "", 0)
  ELSE
  LET s1 == [s EXCEPT !.fuel = @ - 1, !.depth = @ + 1] IN
  CASE f.k = "Clo" ->
         IF Len(f.ps) # Len(args) THEN Err("Arity", line, s)
         ELSE LET r == EvalSeq(prog, f.b, 1,
                               [s1 EXCEPT !.bl = Append(f.env, BindParams(f.ps, args, 1, EmptyBlk))], UnitV) IN
              LET back == [r.s EXCEPT !.bl = s.bl, !.depth = s.depth] IN
              (CASE r.c \in {"ok", "return"} ->
                      IF HasType(r.v, f.rt) THEN Ok(r.v, back) ELSE Err("TypeError", f.line, back)
                 [] OTHER -> [r EXCEPT !.s = back])
    [] f.k = "Fun" ->
         LET d == prog.funs[FunIdx(prog, f.n)] IN
         IF Len(d.ps) # Len(args) THEN Err("Arity", line, s)
         \* declared parameter types are checked at run time (named functions only)
         ELSE IF \E i \in 1..Len(args) : ~HasType(args[i], d.pt[i]) THEN Err("TypeError", line, s)
         ELSE LET r == EvalSeq(prog, d.b, 1,
                               [s1 EXCEPT !.bl = <<BindParams(d.ps, args, 1, EmptyBlk)>>], UnitV) IN
              LET back == [r.s EXCEPT !.bl = s.bl, !.depth = s.depth] IN
              (CASE r.c \in {"ok", "return"} ->
                      IF HasType(r.v, d.rt) THEN Ok(r.v, back) ELSE Err("TypeError", d.line, back)
                 [] OTHER -> [r EXCEPT !.s = back])
    [] OTHER -> Err("ExpectedFunction", line, s)

MethodCall(e, recv, args, s) ==
  CASE e.m = "len" /\ Len(args) = 0 /\ IsList(recv) -> Ok(IntV(Len(recv.v)), s)
    [] e.m = "len" /\ Len(args) = 0 /\ IsStr(recv) -> Ok(IntV(Len(recv.v)), s)   \* ASCII strings only
    [] e.m = "append" /\ Len(args) = 1 /\ IsList(recv) -> Ok(ListV(Append(recv.v, args[1])), s)
    [] e.m = "get" /\ Len(args) = 1 /\ IsList(recv) /\ IsInt(args[1]) ->
         IF args[1].v >= 0 /\ args[1].v < Len(recv.v) THEN Ok(SomeV(recv.v[args[1].v + 1]), s)
         ELSE Ok(NoneV, s)
    [] OTHER -> Err("MethodError", e.line, s)

Eval(prog, e, s) ==
  CASE e.k = "int"  -> Ok(IntV(e.v), s)
    [] e.k = "str"  -> Ok(StrV(e.v), s)
    [] e.k = "bool" -> Ok(BoolV(e.v), s)
    [] e.k = "unit" -> Ok(UnitV, s)
    [] e.k = "paren" -> Eval(prog, e.e, s)
    [] e.k = "watch" -> \* transparent; remembers the first value (C27: what eval-up-to must report)
                        LET r == Eval(prog, e.e, s) IN
                        IF r.c = "ok" /\ r.s.w = "-" /\ r.v.k \notin {"Clo", "Fun"}
                        THEN [r EXCEPT !.s.w = Disp(r.v)] ELSE r
    [] e.k = "var"  ->
         LET i == FindBlk(s.bl, e.n, Len(s.bl)) IN
         IF i # 0 THEN Ok(s.bl[i][e.n], s)
         ELSE IF FunIdx(prog, e.n) # 0 THEN Ok(FunV(e.n), s)
         ELSE Err("NoSuchVariable", e.line, s)
    [] e.k = "let"  ->
         LET r == Eval(prog, e.e, s) IN
         IF r.c # "ok" THEN r
         ELSE Ok(UnitV, [r.s EXCEPT !.bl[Len(r.s.bl)] = Bind(@, e.n, r.v)])
    [] e.k = "set"  ->
         LET r == Eval(prog, e.e, s) IN
         IF r.c # "ok" THEN r
         ELSE LET i == FindBlk(r.s.bl, e.n, Len(r.s.bl)) IN
              IF i = 0 THEN Err("NotBound", e.line, r.s)
              ELSE Ok(UnitV, [r.s EXCEPT !.bl[i] = Bind(@, e.n, r.v)])
    [] e.k = "upd"  ->
         LET r == Eval(prog, e.e, s) IN
         IF r.c # "ok" THEN r
         ELSE LET i == FindBlk(r.s.bl, e.n, Len(r.s.bl)) IN
              IF i = 0 THEN Err("NotBound", e.line, r.s)
              ELSE LET cur == r.s.bl[i][e.n] IN
                   IF ~IsInt(cur) \/ ~IsInt(r.v) THEN Err("TypeError", e.line, r.s)
                   ELSE LET rr == IntBin(e.op, cur.v, r.v.v, e.line, r.s) IN
                        IF rr.c # "ok" THEN rr
                        ELSE Ok(UnitV, [r.s EXCEPT !.bl[i] = Bind(@, e.n, rr.v)])
    [] e.k = "bin"  ->
         \* left operand first, then right; both always evaluated (PINNED: && and || are strict)
         LET rl == Eval(prog, e.l, s) IN
         IF rl.c # "ok" THEN rl
         ELSE LET rr == Eval(prog, e.r, rl.s) IN
              IF rr.c # "ok" THEN rr
              ELSE LET a == rl.v  b == rr.v  t == rr.s IN
                   (CASE e.op \in IntOps ->
                          IF ~IsInt(a) \/ ~IsInt(b) THEN Err("TypeError", e.line, t)
                          ELSE IntBin(e.op, a.v, b.v, e.line, t)
                     [] e.op = "==" -> Ok(BoolV(ValEq(a, b)), t)
                     [] e.op = "!=" -> Ok(BoolV(~ValEq(a, b)), t)
                     [] e.op \in {"&&", "||"} ->
                          IF ~IsBool(a) \/ ~IsBool(b) THEN Err("TypeError", e.line, t)
                          ELSE Ok(BoolV(IF e.op = "&&" THEN IsTrue(a) /\ IsTrue(b)
                                        ELSE IsTrue(a) \/ IsTrue(b)), t)
                     [] e.op = "^" ->
                          IF ~IsStr(a) \/ ~IsStr(b) THEN Err("TypeError", e.line, t)
                          ELSE Ok(StrV(a.v \o b.v), t))
    [] e.k = "list" ->
         LET r == EvalItemsRev(prog, e.xs, Len(e.xs), s, <<>>) IN
         IF r.c # "ok" THEN r ELSE Ok(ListV(r.v.v), r.s)
    [] e.k = "tuple" ->
         LET r == EvalItemsRev(prog, e.xs, Len(e.xs), s, <<>>) IN
         IF r.c # "ok" THEN r ELSE Ok(TupV(r.v.v), r.s)
    [] e.k = "slit" ->
         \* struct literal: field expressions are evaluated last to first, like tuple items (PINNED);
         \* the value keeps the literal's field order
         LET r == EvalItemsRev(prog, [i \in 1..Len(e.fs) |-> e.fs[i].e], Len(e.fs), s, <<>>) IN
         IF r.c # "ok" THEN r
         ELSE Ok(StructV(e.n, [i \in 1..Len(e.fs) |-> [n |-> e.fs[i].n, v |-> r.v.v[i]]]), r.s)
    [] e.k = "dot" ->
         LET r == Eval(prog, e.e, s) IN
         IF r.c # "ok" THEN r
         ELSE IF r.v.k # "Struct" THEN Err("TypeError", e.line, r.s)
         ELSE LET S == {i \in 1..Len(r.v.fs) : r.v.fs[i].n = e.f} IN
              IF S = {} THEN Err("NoField", e.line, r.s) ELSE Ok(r.v.fs[CHOOSE i \in S : TRUE].v, r.s)
    [] e.k = "letd" ->
         \* let (a, b) = e: the value must be a tuple with as many items as names
         LET r == Eval(prog, e.e, s) IN
         IF r.c # "ok" THEN r
         ELSE IF r.v.k # "Tuple" \/ Len(r.v.v) # Len(e.ns) THEN Err("TypeError", e.line, r.s)
         ELSE Ok(UnitV, [r.s EXCEPT !.bl[Len(r.s.bl)] = BindParams(e.ns, r.v.v, 1, @)])
    [] e.k = "try" ->
         \* PINNED: the catch block is not evaluated at run time; try { b } is the block b
         EvalBlock(prog, e.b, s, EmptyBlk)
    [] e.k = "ctor" ->
         \* Some(e), Ok(e), Err(e), user variants with payload; bare variants
         LET r == EvalItemsRev(prog, e.args, Len(e.args), s, <<>>) IN
         IF r.c # "ok" THEN r
         ELSE IF Len(e.args) = 0 THEN Ok(EnumV(e.n, FALSE, NoPayload), r.s)
         ELSE Ok(EnumV(e.n, TRUE, r.v.v[1]), r.s)
    [] e.k = "if"   ->
         LET rc == Eval(prog, e.c, s) IN
         IF rc.c # "ok" THEN rc
         ELSE IF ~IsBool(rc.v) THEN Err("TypeError", e.c.line, rc.s)
         ELSE IF IsTrue(rc.v)
              THEN LET rb == EvalBlock(prog, e.t, rc.s, EmptyBlk) IN
                   IF rb.c = "ok" /\ ~e.else THEN Ok(UnitV, rb.s) ELSE rb
              ELSE IF e.else THEN EvalBlock(prog, e.f, rc.s, EmptyBlk)
              ELSE Ok(UnitV, rc.s)
    [] e.k = "while" -> WhileLoop(prog, e, s)
    [] e.k \in {"for", "ford"} ->
         LET r == Eval(prog, e.it, s) IN
         IF r.c # "ok" THEN r
         ELSE IF ~IsList(r.v) THEN Err("TypeError", e.it.line, r.s)
         ELSE ForLoop(prog, e, r.v.v, 1, r.s)
    [] e.k = "break"    -> R("break", UnitV, s, "", 0)
    [] e.k = "continue" -> R("continue", UnitV, s, "", 0)
    [] e.k = "ret"  ->
         LET r == Eval(prog, e.e, s) IN
         IF r.c # "ok" THEN r ELSE R("return", r.v, r.s, "", 0)
    [] e.k = "lam"  -> Ok(CloV(e.ps, e.b, s.bl, e.rt, e.line), s)
    [] e.k = "call" ->
         \* callee first, then arguments last to first (PINNED)
         LET rf == Eval(prog, e.f, s) IN
         IF rf.c # "ok" THEN rf
         ELSE LET ra == EvalItemsRev(prog, e.args, Len(e.args), rf.s, <<>>) IN
              IF ra.c # "ok" THEN ra
              ELSE CallValue(prog, rf.v, ra.v.v, e.line, ra.s)
    [] e.k = "mcall" ->
         \* receiver first, then arguments last to first (PINNED)
         LET rr == Eval(prog, e.recv, s) IN
         IF rr.c # "ok" THEN rr
         ELSE LET ra == EvalItemsRev(prog, e.args, Len(e.args), rr.s, <<>>) IN
              IF ra.c # "ok" THEN ra
              ELSE MethodCall(e, rr.v, ra.v.v, ra.s)
    [] e.k = "match" ->
         LET r == Eval(prog, e.s, s) IN
         IF r.c # "ok" THEN r
         ELSE IF r.v.k # "Enum" THEN Err("TypeError", e.s.line, r.s)
         ELSE MatchArms(prog, e, r.v, 1, r.s)
    [] e.k = "show" ->
         \* println(string_repr(e))
         LET r == Eval(prog, e.e, s) IN
         IF r.c # "ok" THEN r
         ELSE Ok(UnitV, [r.s EXCEPT !.out = @ \o Disp(r.v) \o "\n"])
    [] e.k = "print" -> Ok(UnitV, [s EXCEPT !.out = @ \o e.v])
    [] e.k = "throw" -> Err("Thrown", e.line, s)
    [] e.k = "assert" ->
         LET r == Eval(prog, e.e, s) IN
         IF r.c # "ok" THEN r
         ELSE IF ~IsBool(r.v) THEN Err("TypeError", e.line, r.s)
         ELSE IF IsTrue(r.v) THEN Ok(UnitV, r.s)
         ELSE R("error", UnitV, r.s, "AssertionFailed", e.line)

\* Run a whole program.  The top level is one frame with one block
\* (top-level lets are its locals); a top-level `return` ends the program
\* silently (PINNED).
Run(prog, fuel) ==
  LET r == EvalSeq(prog, prog.main, 1, St(<<EmptyBlk>>, "", fuel), UnitV) IN
  [outcome |-> CASE r.c \in {"ok", "return"} -> "ok"
                 [] r.c = "error" -> IF r.ek = "AssertionFailed" THEN "assert" ELSE "exception"
                 [] r.c = "fuel" -> "fuel"
                 [] r.c = "big" -> "big"
                 [] OTHER -> "stray-" \o r.c,
   out |-> r.s.out,
   ek |-> r.ek,
   line |-> r.line,
   value |-> IF r.c \in {"ok", "return"} /\ r.v.k \notin {"Clo", "Fun"} THEN Disp(r.v) ELSE "",
   watch |-> r.s.w]
=============================================================================
