-------------------------------- MODULE Ref --------------------------------
(* Reference semantics of the Garden core language: a big-step evaluator    *)
(* in the ordinary textbook style (environments, values, control signals    *)
(* break / continue / return / error).  It is the oracle for C05 and the    *)
(* behavioural oracle for the refactoring properties; Machine.tla (the      *)
(* explicit-stack evaluator shaped like src/eval.rs) is checked against it. *)
(*                                                                          *)
(* Programs are JSON ASTs (see tools/gen_prog.py):                          *)
(*   prog = [funs |-> <<[n, ps, b, line]>>, main |-> <<stmt>>]              *)
(* Every node has fields k (kind) and line.  Beyond the core kinds the      *)
(* evaluator covers struct literals and field access (slit, dot), tuple     *)
(* destructuring in let and for (letd, ford) and try blocks (try); they are *)
(* not (yet) in Machine.tla, so only the Ref-based checks generate them.    *)
(* A second extension adds user-defined methods (prog.meths, dispatched on  *)
(* the receiver's runtime type name), dictionaries (dlit, get / set /       *)
(* remove / items) and the total part of the prelude: list methods first,   *)
(* last, is_empty, is_non_empty, contains, concat, index_of, enumerate,     *)
(* map, filter; option methods is_some, is_none, or_value; the functions    *)
(* range, max, min, not, sort_nums; string methods contains, starts_with,   *)
(* ends_with, index_of, substring, trim*, strip_*, split, chars, join.  The *)
(* prelude implements most of these in Garden itself; here they are stated  *)
(* by their meaning.                                                        *)
(*                                                                          *)
(* Clauses tagged PINNED encode observable choices of the implementation    *)
(* that the language documentation does not spell out (DESIGN.md §5.7).     *)
EXTENDS Values, FiniteSets

EmptyBlk == [x \in {} |-> 0]
Bind(blk, x, v) == (x :> v) @@ blk

\* State threaded through evaluation: block stack of the current frame,
\* everything printed so far, remaining fuel.
\* w: what the watched expression (node kind "watch", property C27) evaluated
\* to the first time an evaluation of it completed; "-" while that has not happened.
St(bl, out, fuel) == [bl |-> bl, out |-> out, fuel |-> fuel, depth |-> 0, w |-> "-"]
MaxDepth == 25

\* Result of evaluating something.
\*   c: "ok" | "break" | "continue" | "return" | "error" | "fuel" | "big"
R(c, v, s, ek, line) == [c |-> c, v |-> v, s |-> s, ek |-> ek, line |-> line]
Ok(v, s)  == R("ok", v, s, "", 0)
Err(ek, line, s) == R("error", UnitV, s, ek, line)
BigR(s) == R("big", UnitV, s, "", 0)

RECURSIVE FindBlk(_, _, _)
\* Index of the innermost block binding x, or 0.
FindBlk(bl, x, i) ==
  IF i = 0 THEN 0 ELSE IF x \in DOMAIN bl[i] THEN i ELSE FindBlk(bl, x, i - 1)

FunIdx(prog, name) ==
  LET S == {i \in 1..Len(prog.funs) : prog.funs[i].n = name} IN
  IF S = {} THEN 0 ELSE CHOOSE i \in S : \A j \in S : i >= j   \* a later definition wins

PushBlk(s, blk) == [s EXCEPT !.bl = Append(@, blk)]
PopBlk(r) == [r EXCEPT !.s.bl = SubSeq(@, 1, Len(@) - 1)]

IntBin(op, a, b, line, s) ==
  CASE op = "+" -> IF Abs(a + b) >= Big THEN BigR(s) ELSE Ok(IntV(a + b), s)
    [] op = "-" -> IF Abs(a - b) >= Big THEN BigR(s) ELSE Ok(IntV(a - b), s)
    [] op = "*" -> IF MulG(a, b) = Big THEN BigR(s) ELSE Ok(IntV(a * b), s)
    [] op = "/" -> IF b = 0 THEN Err("DivZero", line, s) ELSE Ok(IntV(TruncDiv(a, b)), s)
    [] op = "%" -> IF b = 0 THEN Err("DivZero", line, s) ELSE Ok(IntV(EuclidRem(a, b)), s)
    [] op = "**" -> IF b < 0 THEN Err("NegExponent", line, s)
                    ELSE IF b > 30 THEN BigR(s)
                    ELSE IF PowG(a, b) = Big THEN BigR(s)
                    ELSE Ok(IntV(PowG(a, b)), s)
    [] op = "<"  -> Ok(BoolV(a < b), s)
    [] op = "<=" -> Ok(BoolV(a <= b), s)
    [] op = ">"  -> Ok(BoolV(a > b), s)
    [] op = ">=" -> Ok(BoolV(a >= b), s)

IntOps == {"+", "-", "*", "/", "%", "**", "<", "<=", ">", ">="}

RECURSIVE Eval(_, _, _)
RECURSIVE EvalSeq(_, _, _, _, _)
RECURSIVE EvalItemsRev(_, _, _, _, _)
RECURSIVE WhileLoop(_, _, _)
RECURSIVE ForLoop(_, _, _, _, _)
RECURSIVE BindParams(_, _, _, _)
RECURSIVE MatchArms(_, _, _, _, _)
RECURSIVE CallValue(_, _, _, _, _)
RECURSIVE MapLoop(_, _, _, _, _, _)
RECURSIVE FilterLoop(_, _, _, _, _, _)

\* Evaluate statements i..Len(stmts) in the current scope; `last` is the
\* value of the previous statement (Unit for an empty sequence).
EvalSeq(prog, stmts, i, s, last) ==
  IF i > Len(stmts) THEN Ok(last, s)
  ELSE LET r == Eval(prog, stmts[i], s) IN
       IF r.c # "ok" THEN r ELSE EvalSeq(prog, stmts, i + 1, r.s, r.v)

\* A block: fresh scope holding `pre`, dropped on EVERY exit (C06).
EvalBlock(prog, stmts, s, pre) ==
  PopBlk(EvalSeq(prog, stmts, 1, PushBlk(s, pre), UnitV))

\* PINNED: list / tuple elements and call arguments are evaluated last to
\* first.  acc collects values in source order.
EvalItemsRev(prog, xs, i, s, acc) ==
  IF i = 0 THEN R("ok", TupV(acc), s, "", 0)
  ELSE LET r == Eval(prog, xs[i], s) IN
       IF r.c # "ok" THEN r ELSE EvalItemsRev(prog, xs, i - 1, r.s, <<r.v>> \o acc)

WhileLoop(prog, e, s) ==
  IF s.fuel = 0 THEN R("fuel", UnitV, s, "", 0)
  ELSE
  LET rc == Eval(prog, e.c, [s EXCEPT !.fuel = @ - 1]) IN
  IF rc.c # "ok" THEN rc
  ELSE IF ~IsBool(rc.v) THEN Err("TypeError", e.c.line, rc.s)
  ELSE IF ~IsTrue(rc.v) THEN Ok(UnitV, rc.s)
  ELSE LET rb == EvalBlock(prog, e.b, rc.s, EmptyBlk) IN
       CASE rb.c \in {"ok", "continue"} -> WhileLoop(prog, e, rb.s)
         [] rb.c = "break" -> Ok(UnitV, rb.s)
         [] OTHER -> rb

\* the bindings a loop item gives: one name, or (for `for (a, b) in ...`) one per tuple component
ForBinds(e, x) == IF "ns" \in DOMAIN e THEN BindParams(e.ns, x.v, 1, EmptyBlk) ELSE Bind(EmptyBlk, e.n, x)
ForItemOk(e, x) == "ns" \notin DOMAIN e \/ (x.k = "Tuple" /\ Len(x.v) = Len(e.ns))

ForLoop(prog, e, xs, i, s) ==
  IF i > Len(xs) THEN Ok(UnitV, s)
  ELSE IF s.fuel = 0 THEN R("fuel", UnitV, s, "", 0)
  ELSE IF ~ForItemOk(e, xs[i]) THEN Err("TypeError", e.it.line, s)
  ELSE LET rb == EvalBlock(prog, e.b, [s EXCEPT !.fuel = @ - 1], ForBinds(e, xs[i])) IN
       CASE rb.c \in {"ok", "continue"} -> ForLoop(prog, e, xs, i + 1, rb.s)
         [] rb.c = "break" -> Ok(UnitV, rb.s)
         [] OTHER -> rb

\* First arm whose pattern matches the scrutinee.
MatchArms(prog, e, v, i, s) ==
  IF i > Len(e.arms) THEN Err("NoCase", e.s.line, s)
  ELSE LET a == e.arms[i] IN
       IF a.wild THEN EvalBlock(prog, a.b, s, EmptyBlk)
       ELSE IF a.v = v.n
            THEN EvalBlock(prog, a.b, s,
                           IF a.bind # "" /\ v.has THEN Bind(EmptyBlk, a.bind, v.p) ELSE EmptyBlk)
            ELSE MatchArms(prog, e, v, i + 1, s)

\* Runtime check of a value against a declared simple type.
HasType(v, t) ==
  CASE t = "Int" -> IsInt(v)
    [] t = "String" -> IsStr(v)
    [] t = "Bool" -> IsBool(v)
    [] t = "List<Int>" -> IsList(v) /\ \A i \in 1..Len(v.v) : IsInt(v.v[i])
    [] t = "List<String>" -> IsList(v) /\ \A i \in 1..Len(v.v) : IsStr(v.v[i])
    [] t = "List" -> IsList(v)
    [] OTHER -> TRUE

BindParams(ps, args, i, blk) ==
  IF i > Len(ps) THEN blk ELSE BindParams(ps, args, i + 1, Bind(blk, ps[i], args[i]))

\* The prelude functions the reference knows (a program's own definition of the same name wins).
BuiltinFuns == {"range", "max", "min", "not", "sort_nums"}
BuiltinSig(n) == CASE n = "range" -> <<"Int", "Int">> [] n = "max" -> <<"Int", "Int">> [] n = "min" -> <<"Int", "Int">>
                   [] n = "not" -> <<"Bool">> [] n = "sort_nums" -> <<"List<Int>">>
RECURSIVE RangeSeq(_, _)
RangeSeq(i, j) == IF i >= j THEN <<>> ELSE <<IntV(i)>> \o RangeSeq(i + 1, j)
CallBuiltin(n, args, line, s) ==
  LET sig == BuiltinSig(n) IN
  IF Len(sig) # Len(args) THEN Err("Arity", line, s)
  ELSE IF \E i \in 1..Len(args) : ~HasType(args[i], sig[i]) THEN Err("TypeError", line, s)
  ELSE CASE n = "range" -> IF args[2].v - args[1].v > 40 THEN BigR(s) ELSE Ok(ListV(RangeSeq(args[1].v, args[2].v)), s)
         [] n = "max" -> Ok(IF args[1].v >= args[2].v THEN args[1] ELSE args[2], s)
         [] n = "min" -> Ok(IF args[1].v <= args[2].v THEN args[1] ELSE args[2], s)
         [] n = "not" -> Ok(BoolV(~IsTrue(args[1])), s)
         [] n = "sort_nums" -> Ok(ListV(SortSeq(args[1].v, LAMBDA a, b : a.v < b.v)), s)

\* User-defined methods: the latest definition for (receiver type name, method name), or 0.
MethIdx(prog, ty, m) ==
  IF "meths" \notin DOMAIN prog THEN 0
  ELSE LET S == {i \in 1..Len(prog.meths) : prog.meths[i].recv = ty /\ prog.meths[i].n = m} IN
       IF S = {} THEN 0 ELSE CHOOSE i \in S : \A j \in S : i >= j

\* Apply a function value to evaluated arguments.  The callee runs in its
\* own frame: named functions see only their parameters (PINNED: not the
\* top-level variables); closures see a copy of the blocks captured at
\* creation (PINNED: assignments inside do not escape and do not persist
\* between calls).
CallValue(prog, f, args, line, s) ==
  IF s.fuel = 0 \/ s.depth >= MaxDepth THEN R("fuel", UnitV, s, "", 0)
  ELSE
  LET s1 == [s EXCEPT !.fuel = @ - 1, !.depth = @ + 1] IN
  CASE f.k = "Clo" ->
         IF Len(f.ps) # Len(args) THEN Err("Arity", line, s)
         ELSE LET r == EvalSeq(prog, f.b, 1,
                               [s1 EXCEPT !.bl = Append(f.env, BindParams(f.ps, args, 1, EmptyBlk))], UnitV) IN
              LET back == [r.s EXCEPT !.bl = s.bl, !.depth = s.depth] IN
              (CASE r.c \in {"ok", "return"} ->
                      IF HasType(r.v, f.rt) THEN Ok(r.v, back) ELSE Err("TypeError", f.line, back)
                 [] OTHER -> [r EXCEPT !.s = back])
    [] f.k = "Fun" /\ FunIdx(prog, f.n) = 0 -> CallBuiltin(f.n, args, line, s)
    [] f.k = "Fun" ->
         LET d == prog.funs[FunIdx(prog, f.n)] IN
         IF Len(d.ps) # Len(args) THEN Err("Arity", line, s)
         \* declared parameter types are checked at run time (named functions only)
         ELSE IF \E i \in 1..Len(args) : ~HasType(args[i], d.pt[i]) THEN Err("TypeError", line, s)
         ELSE LET r == EvalSeq(prog, d.b, 1,
                               [s1 EXCEPT !.bl = <<BindParams(d.ps, args, 1, EmptyBlk)>>], UnitV) IN
              LET back == [r.s EXCEPT !.bl = s.bl, !.depth = s.depth] IN
              (CASE r.c \in {"ok", "return"} ->
                      IF HasType(r.v, d.rt) THEN Ok(r.v, back) ELSE Err("TypeError", d.line, back)
                 [] OTHER -> [r EXCEPT !.s = back])
    [] OTHER -> Err("ExpectedFunction", line, s)

\* A user-defined method: arity is checked, declared parameter types are NOT (PINNED: eval_method_call binds
\* without check_param_types), the declared return type is; the body sees the parameters and the receiver.
CallMethod(prog, d, recv, args, line, s) ==
  IF s.fuel = 0 \/ s.depth >= MaxDepth THEN R("fuel", UnitV, s, "", 0)
  ELSE IF Len(d.ps) # Len(args) THEN Err("Arity", line, s)
  ELSE LET s1 == [s EXCEPT !.fuel = @ - 1, !.depth = @ + 1]
           r == EvalSeq(prog, d.b, 1, [s1 EXCEPT !.bl = <<Bind(BindParams(d.ps, args, 1, EmptyBlk), d.this, recv)>>], UnitV)
           back == [r.s EXCEPT !.bl = s.bl, !.depth = s.depth] IN
       CASE r.c \in {"ok", "return"} -> IF HasType(r.v, d.rt) THEN Ok(r.v, back) ELSE Err("TypeError", d.line, back)
         [] OTHER -> [r EXCEPT !.s = back]

\* xs.map(f) / xs.filter(f): f is applied to the items first to last
MapLoop(prog, f, xs, i, line, sacc) ==
  IF i > Len(xs) THEN Ok(ListV(sacc[2]), sacc[1])
  ELSE LET r == CallValue(prog, f, <<xs[i]>>, line, sacc[1]) IN
       IF r.c # "ok" THEN r ELSE MapLoop(prog, f, xs, i + 1, line, <<r.s, Append(sacc[2], r.v)>>)
FilterLoop(prog, f, xs, i, line, sacc) ==
  IF i > Len(xs) THEN Ok(ListV(sacc[2]), sacc[1])
  ELSE LET r == CallValue(prog, f, <<xs[i]>>, line, sacc[1]) IN
       IF r.c # "ok" THEN r
       ELSE IF ~IsBool(r.v) THEN Err("TypeError", line, r.s)
       ELSE FilterLoop(prog, f, xs, i + 1, line, <<r.s, IF IsTrue(r.v) THEN Append(sacc[2], xs[i]) ELSE sacc[2]>>)

(* String methods of the prelude on TLA+ strings (ASCII; indexes count characters).  The definitions follow  *)
(* Prelude.tla (property C32), which states them over character sequences; here they are restated with     *)
(* SubSeq / Len on strings so that whole programs can use them.                                              *)
SSub(s, from, to) == SubSeq(s, from + 1, to)          \* characters from..to-1, 0-based
SStartsWith(s, p) == Len(p) <= Len(s) /\ SSub(s, 0, Len(p)) = p
SEndsWith(s, p) == Len(p) <= Len(s) /\ SSub(s, Len(s) - Len(p), Len(s)) = p
SIndexOf(s, n) ==      \* least index at which n occurs in s, -1 if none
  LET C == {i \in 0..(Len(s) - Len(n)) : SSub(s, i, i + Len(n)) = n} IN
  IF C = {} THEN -1 ELSE CHOOSE i \in C : \A j \in C : i <= j
SMin(a, b) == IF a <= b THEN a ELSE b
RECURSIVE STrimLeft(_)
STrimLeft(s) == IF Len(s) > 0 /\ SSub(s, 0, 1) = " " THEN STrimLeft(SSub(s, 1, Len(s))) ELSE s
RECURSIVE STrimRight(_)
STrimRight(s) == IF Len(s) > 0 /\ SSub(s, Len(s) - 1, Len(s)) = " " THEN STrimRight(SSub(s, 0, Len(s) - 1)) ELSE s
RECURSIVE SPieces(_, _)
SPieces(s, n) ==       \* the pieces between occurrences of n; for the empty needle, the characters
  IF Len(n) = 0 THEN [i \in 1..Len(s) |-> StrV(SSub(s, i - 1, i))]
  ELSE LET i == SIndexOf(s, n) IN
       IF i = -1 THEN <<StrV(s)>> ELSE <<StrV(SSub(s, 0, i))>> \o SPieces(SSub(s, i + Len(n), Len(s)), n)
RECURSIVE SJoin(_, _, _)
SJoin(items, sep, i) ==
  IF i > Len(items) THEN "" ELSE items[i].v \o (IF i < Len(items) THEN sep \o SJoin(items, sep, i + 1) ELSE "")

IsOpt(v) == v.k = "Enum" /\ v.n \in {"Some", "None"}
IsFun(v) == v.k \in {"Clo", "Fun"}
FirstIdx(xs, x) == LET S == {i \in 1..Len(xs) : ValEq(xs[i], x)} IN
                   IF S = {} THEN 0 ELSE CHOOSE i \in S : \A j \in S : i <= j

\* Built-in and prelude methods, by receiver kind, name and number of arguments.
MethodCall(prog, e, recv, args, s) ==
  LET n == Len(args)  m == e.m IN
  CASE m = "len" /\ n = 0 /\ IsList(recv) -> Ok(IntV(Len(recv.v)), s)
    [] m = "len" /\ n = 0 /\ IsStr(recv) -> Ok(IntV(Len(recv.v)), s)   \* ASCII strings only
    [] m = "append" /\ n = 1 /\ IsList(recv) -> Ok(ListV(Append(recv.v, args[1])), s)
    [] m = "get" /\ n = 1 /\ IsList(recv) /\ IsInt(args[1]) ->
         IF args[1].v >= 0 /\ args[1].v < Len(recv.v) THEN Ok(SomeV(recv.v[args[1].v + 1]), s)
         ELSE Ok(NoneV, s)
    \* the total part of the prelude's list methods
    [] m = "first" /\ n = 0 /\ IsList(recv) -> Ok(IF recv.v = <<>> THEN NoneV ELSE SomeV(recv.v[1]), s)
    [] m = "last" /\ n = 0 /\ IsList(recv) -> Ok(IF recv.v = <<>> THEN NoneV ELSE SomeV(recv.v[Len(recv.v)]), s)
    [] m = "is_empty" /\ n = 0 /\ IsList(recv) -> Ok(BoolV(recv.v = <<>>), s)
    [] m = "is_non_empty" /\ n = 0 /\ IsList(recv) -> Ok(BoolV(recv.v # <<>>), s)
    [] m = "contains" /\ n = 1 /\ IsList(recv) -> Ok(BoolV(FirstIdx(recv.v, args[1]) # 0), s)
    [] m = "index_of" /\ n = 1 /\ IsList(recv) ->
         Ok(IF FirstIdx(recv.v, args[1]) = 0 THEN NoneV ELSE SomeV(IntV(FirstIdx(recv.v, args[1]) - 1)), s)
    [] m = "concat" /\ n = 1 /\ IsList(recv) /\ IsList(args[1]) -> Ok(ListV(recv.v \o args[1].v), s)
    [] m = "enumerate" /\ n = 0 /\ IsList(recv) ->
         Ok(ListV([i \in 1..Len(recv.v) |-> TupV(<<IntV(i - 1), recv.v[i]>>)]), s)
    [] m = "map" /\ n = 1 /\ IsList(recv) /\ IsFun(args[1]) -> MapLoop(prog, args[1], recv.v, 1, e.line, <<s, <<>> >>)
    [] m = "filter" /\ n = 1 /\ IsList(recv) /\ IsFun(args[1]) -> FilterLoop(prog, args[1], recv.v, 1, e.line, <<s, <<>> >>)
    \* strings
    [] m = "contains" /\ n = 1 /\ IsStr(recv) /\ IsStr(args[1]) -> Ok(BoolV(SIndexOf(recv.v, args[1].v) # -1), s)
    [] m = "starts_with" /\ n = 1 /\ IsStr(recv) /\ IsStr(args[1]) -> Ok(BoolV(SStartsWith(recv.v, args[1].v)), s)
    [] m = "ends_with" /\ n = 1 /\ IsStr(recv) /\ IsStr(args[1]) -> Ok(BoolV(SEndsWith(recv.v, args[1].v)), s)
    [] m = "index_of" /\ n = 1 /\ IsStr(recv) /\ IsStr(args[1]) ->
         Ok(IF SIndexOf(recv.v, args[1].v) = -1 THEN NoneV ELSE SomeV(IntV(SIndexOf(recv.v, args[1].v))), s)
    [] m = "substring" /\ n = 2 /\ IsStr(recv) /\ IsInt(args[1]) /\ IsInt(args[2]) ->
         \* the end is clamped; a negative start or start > end is an error
         IF args[1].v < 0 \/ args[1].v > args[2].v THEN Err("MethodError", e.line, s)
         ELSE Ok(StrV(SSub(recv.v, SMin(args[1].v, Len(recv.v)), SMin(args[2].v, Len(recv.v)))), s)
    [] m = "trim" /\ n = 0 /\ IsStr(recv) -> Ok(StrV(STrimRight(STrimLeft(recv.v))), s)
    [] m = "trim_left" /\ n = 0 /\ IsStr(recv) -> Ok(StrV(STrimLeft(recv.v)), s)
    [] m = "trim_right" /\ n = 0 /\ IsStr(recv) -> Ok(StrV(STrimRight(recv.v)), s)
    [] m = "strip_prefix" /\ n = 1 /\ IsStr(recv) /\ IsStr(args[1]) ->
         Ok(StrV(IF SStartsWith(recv.v, args[1].v) THEN SSub(recv.v, Len(args[1].v), Len(recv.v)) ELSE recv.v), s)
    [] m = "strip_suffix" /\ n = 1 /\ IsStr(recv) /\ IsStr(args[1]) ->
         Ok(StrV(IF SEndsWith(recv.v, args[1].v) THEN SSub(recv.v, 0, Len(recv.v) - Len(args[1].v)) ELSE recv.v), s)
    [] m = "split" /\ n = 1 /\ IsStr(recv) /\ IsStr(args[1]) ->
         Ok(ListV(IF Len(recv.v) = 0 THEN <<>> ELSE SPieces(recv.v, args[1].v)), s)     \* "".split(",") = []
    [] m = "chars" /\ n = 0 /\ IsStr(recv) -> Ok(ListV(SPieces(recv.v, "")), s)
    [] m = "join" /\ n = 1 /\ IsStr(recv) /\ IsList(args[1]) /\ (\A i \in 1..Len(args[1].v) : IsStr(args[1].v[i])) ->
         Ok(StrV(SJoin(args[1].v, recv.v, 1)), s)
    \* options
    [] m = "is_some" /\ n = 0 /\ IsOpt(recv) -> Ok(BoolV(recv.has), s)
    [] m = "is_none" /\ n = 0 /\ IsOpt(recv) -> Ok(BoolV(~recv.has), s)
    [] m = "or_value" /\ n = 1 /\ IsOpt(recv) -> Ok(IF recv.has THEN recv.p ELSE args[1], s)
    \* dictionaries
    [] m = "get" /\ n = 1 /\ IsDict(recv) /\ IsStr(args[1]) ->
         LET S == {i \in 1..Len(recv.kv) : recv.kv[i].k = args[1].v} IN
         Ok(IF S = {} THEN NoneV ELSE SomeV(recv.kv[CHOOSE i \in S : TRUE].v), s)
    [] m = "set" /\ n = 2 /\ IsDict(recv) /\ IsStr(args[1]) -> Ok(DictV(DictSetKey(recv.kv, args[1].v, args[2])), s)
    [] m = "remove" /\ n = 1 /\ IsDict(recv) /\ IsStr(args[1]) -> Ok(DictV(DictRemoveKey(recv.kv, args[1].v)), s)
    [] m = "items" /\ n = 0 /\ IsDict(recv) ->
         Ok(ListV([i \in 1..Len(recv.kv) |-> TupV(<<StrV(recv.kv[i].k), recv.kv[i].v>>)]), s)
    [] OTHER -> Err("MethodError", e.line, s)

\* The declared fields of struct n (prog.structs, when the program carries its declarations), or <<>>.
StructFields(prog, n) ==
  IF "structs" \notin DOMAIN prog THEN <<>>
  ELSE LET S == {i \in 1..Len(prog.structs) : prog.structs[i].n = n} IN
       IF S = {} THEN <<>> ELSE prog.structs[CHOOSE i \in S : TRUE].fs
\* What is wrong with a struct literal whose field values are vals (src/eval.rs eval_struct_value): fields are
\* taken in the literal's order; a name the struct does not declare and a value of the wrong type are reported
\* at that field, a missing field at the literal.  A field given twice is not an error (the checker only warns
\* about it): the later value wins, see SlitFields.  ek = "" if nothing is wrong.
SlitProblem(prog, e, vals) ==
  LET decl == StructFields(prog, e.n)
      Declared(nm) == {j \in 1..Len(decl) : decl[j].n = nm}
      BadAt(i) == \/ Declared(e.fs[i].n) = {}
                  \/ ~HasType(vals[i], decl[CHOOSE j \in Declared(e.fs[i].n) : TRUE].t)
      B == {i \in 1..Len(e.fs) : BadAt(i)} IN
  IF decl = <<>> THEN [ek |-> "", line |-> 0]
  ELSE IF B # {} THEN
       LET i == CHOOSE i \in B : \A j \in B : i <= j IN
       [ek |-> IF Declared(e.fs[i].n) = {} THEN "NoField" ELSE "TypeError", line |-> e.fs[i].e.line]
  ELSE IF \E j \in 1..Len(decl) : \A i \in 1..Len(e.fs) : e.fs[i].n # decl[j].n THEN [ek |-> "NoField", line |-> e.line]
  ELSE [ek |-> "", line |-> 0]

\* The fields of the value a struct literal builds: one per distinct name, at the place of the name's first
\* occurrence, holding the value of its last occurrence.
SlitFields(e, vals) ==
  LET First(i) == \A j \in 1..(i - 1) : e.fs[j].n # e.fs[i].n
      LastOf(nm) == CHOOSE i \in 1..Len(e.fs) : e.fs[i].n = nm /\ \A j \in (i + 1)..Len(e.fs) : e.fs[j].n # nm
      idx == SelectSeq([i \in 1..Len(e.fs) |-> i], First) IN
  [k \in 1..Len(idx) |-> [n |-> e.fs[idx[k]].n, v |-> vals[LastOf(e.fs[idx[k]].n)]]]

\* Fold the evaluated key / value pairs of a dictionary literal, first pair to last (a later duplicate wins);
\* vals alternates value, key (see dlit below).  A key that is not a string is a type error at that key.
RECURSIVE DictFold(_, _, _, _, _)
DictFold(e, vals, i, acc, s) ==
  IF i > Len(e.kvs) THEN Ok(DictV(acc), s)
  ELSE LET key == vals[2 * i]  val == vals[2 * i - 1] IN
       IF ~IsStr(key) THEN Err("TypeError", e.kvs[i].key.line, s)
       ELSE DictFold(e, vals, i + 1, DictSetKey(acc, key.v, val), s)

Eval(prog, e, s) ==
  CASE e.k = "int"  -> Ok(IntV(e.v), s)
    [] e.k = "str"  -> Ok(StrV(e.v), s)
    [] e.k = "bool" -> Ok(BoolV(e.v), s)
    [] e.k = "unit" -> Ok(UnitV, s)
    [] e.k = "paren" -> Eval(prog, e.e, s)
    [] e.k = "watch" -> \* transparent; remembers the first value (C27: what eval-up-to must report)
                        LET r == Eval(prog, e.e, s) IN
                        IF r.c = "ok" /\ r.s.w = "-" /\ r.v.k \notin {"Clo", "Fun"}
                        THEN [r EXCEPT !.s.w = Disp(r.v)] ELSE r
    [] e.k = "var"  ->
         LET i == FindBlk(s.bl, e.n, Len(s.bl)) IN
         IF i # 0 THEN Ok(s.bl[i][e.n], s)
         ELSE IF FunIdx(prog, e.n) # 0 \/ e.n \in BuiltinFuns THEN Ok(FunV(e.n), s)
         ELSE Err("NoSuchVariable", e.line, s)
    [] e.k = "let"  ->
         LET r == Eval(prog, e.e, s) IN
         IF r.c # "ok" THEN r
         ELSE Ok(UnitV, [r.s EXCEPT !.bl[Len(r.s.bl)] = Bind(@, e.n, r.v)])
    [] e.k = "set"  ->
         LET r == Eval(prog, e.e, s) IN
         IF r.c # "ok" THEN r
         ELSE LET i == FindBlk(r.s.bl, e.n, Len(r.s.bl)) IN
              IF i = 0 THEN Err("NotBound", e.line, r.s)
              ELSE Ok(UnitV, [r.s EXCEPT !.bl[i] = Bind(@, e.n, r.v)])
    [] e.k = "upd"  ->
         LET r == Eval(prog, e.e, s) IN
         IF r.c # "ok" THEN r
         ELSE LET i == FindBlk(r.s.bl, e.n, Len(r.s.bl)) IN
              IF i = 0 THEN Err("NotBound", e.line, r.s)
              ELSE LET cur == r.s.bl[i][e.n] IN
                   IF ~IsInt(cur) \/ ~IsInt(r.v) THEN Err("TypeError", e.line, r.s)
                   ELSE LET rr == IntBin(e.op, cur.v, r.v.v, e.line, r.s) IN
                        IF rr.c # "ok" THEN rr
                        ELSE Ok(UnitV, [r.s EXCEPT !.bl[i] = Bind(@, e.n, rr.v)])
    [] e.k = "bin"  ->
         \* left operand first, then right; both always evaluated (PINNED: && and || are strict)
         LET rl == Eval(prog, e.l, s) IN
         IF rl.c # "ok" THEN rl
         ELSE LET rr == Eval(prog, e.r, rl.s) IN
              IF rr.c # "ok" THEN rr
              ELSE LET a == rl.v  b == rr.v  t == rr.s IN
                   (CASE e.op \in IntOps ->
                          IF ~IsInt(a) \/ ~IsInt(b) THEN Err("TypeError", e.line, t)
                          ELSE IntBin(e.op, a.v, b.v, e.line, t)
                     [] e.op = "==" -> Ok(BoolV(ValEq(a, b)), t)
                     [] e.op = "!=" -> Ok(BoolV(~ValEq(a, b)), t)
                     [] e.op \in {"&&", "||"} ->
                          IF ~IsBool(a) \/ ~IsBool(b) THEN Err("TypeError", e.line, t)
                          ELSE Ok(BoolV(IF e.op = "&&" THEN IsTrue(a) /\ IsTrue(b)
                                        ELSE IsTrue(a) \/ IsTrue(b)), t)
                     [] e.op = "^" ->
                          IF ~IsStr(a) \/ ~IsStr(b) THEN Err("TypeError", e.line, t)
                          ELSE Ok(StrV(a.v \o b.v), t))
    [] e.k = "list" ->
         LET r == EvalItemsRev(prog, e.xs, Len(e.xs), s, <<>>) IN
         IF r.c # "ok" THEN r ELSE Ok(ListV(r.v.v), r.s)
    [] e.k = "tuple" ->
         LET r == EvalItemsRev(prog, e.xs, Len(e.xs), s, <<>>) IN
         IF r.c # "ok" THEN r ELSE Ok(TupV(r.v.v), r.s)
    [] e.k = "slit" ->
         \* struct literal: field expressions are evaluated last to first, like tuple items (PINNED);
         \* the value keeps the literal's field order
         LET r == EvalItemsRev(prog, [i \in 1..Len(e.fs) |-> e.fs[i].e], Len(e.fs), s, <<>>) IN
         IF r.c # "ok" THEN r
         ELSE LET bad == SlitProblem(prog, e, r.v.v) IN
              IF bad.ek # "" THEN Err(bad.ek, bad.line, r.s)
              ELSE Ok(StructV(e.n, SlitFields(e, r.v.v)), r.s)
    [] e.k = "dlit" ->
         \* Dict[k1 => v1, ...]: PINNED evaluation order: last pair first, and within a pair the key before
         \* the value (src/eval.rs DictLiteral pushes value then key for each pair onto the LIFO work list)
         LET flat == [i \in 1..(2 * Len(e.kvs)) |-> IF i % 2 = 1 THEN e.kvs[(i + 1) \div 2].val ELSE e.kvs[i \div 2].key]
             r == EvalItemsRev(prog, flat, Len(flat), s, <<>>) IN
         IF r.c # "ok" THEN r ELSE DictFold(e, r.v.v, 1, <<>>, r.s)
    [] e.k = "dot" ->
         LET r == Eval(prog, e.e, s) IN
         IF r.c # "ok" THEN r
         ELSE IF r.v.k # "Struct" THEN Err("TypeError", e.line, r.s)
         ELSE LET S == {i \in 1..Len(r.v.fs) : r.v.fs[i].n = e.f} IN
              IF S = {} THEN Err("NoField", e.line, r.s) ELSE Ok(r.v.fs[CHOOSE i \in S : TRUE].v, r.s)
    [] e.k = "letd" ->
         \* let (a, b) = e: the value must be a tuple with as many items as names
         LET r == Eval(prog, e.e, s) IN
         IF r.c # "ok" THEN r
         ELSE IF r.v.k # "Tuple" \/ Len(r.v.v) # Len(e.ns) THEN Err("TypeError", e.line, r.s)
         ELSE Ok(UnitV, [r.s EXCEPT !.bl[Len(r.s.bl)] = BindParams(e.ns, r.v.v, 1, @)])
    [] e.k = "try" ->
         \* PINNED: the catch block is not evaluated at run time; try { b } is the block b
         EvalBlock(prog, e.b, s, EmptyBlk)
    [] e.k = "ctor" ->
         \* Some(e), Ok(e), Err(e), user variants with payload; bare variants
         LET r == EvalItemsRev(prog, e.args, Len(e.args), s, <<>>) IN
         IF r.c # "ok" THEN r
         ELSE IF Len(e.args) = 0 THEN Ok(EnumV(e.n, FALSE, NoPayload), r.s)
         ELSE Ok(EnumV(e.n, TRUE, r.v.v[1]), r.s)
    [] e.k = "if"   ->
         LET rc == Eval(prog, e.c, s) IN
         IF rc.c # "ok" THEN rc
         ELSE IF ~IsBool(rc.v) THEN Err("TypeError", e.c.line, rc.s)
         ELSE IF IsTrue(rc.v)
              THEN LET rb == EvalBlock(prog, e.t, rc.s, EmptyBlk) IN
                   IF rb.c = "ok" /\ ~e.else THEN Ok(UnitV, rb.s) ELSE rb
              ELSE IF e.else THEN EvalBlock(prog, e.f, rc.s, EmptyBlk)
              ELSE Ok(UnitV, rc.s)
    [] e.k = "while" -> WhileLoop(prog, e, s)
    [] e.k \in {"for", "ford"} ->
         LET r == Eval(prog, e.it, s) IN
         IF r.c # "ok" THEN r
         ELSE IF ~IsList(r.v) THEN Err("TypeError", e.it.line, r.s)
         ELSE ForLoop(prog, e, r.v.v, 1, r.s)
    [] e.k = "break"    -> R("break", UnitV, s, "", 0)
    [] e.k = "continue" -> R("continue", UnitV, s, "", 0)
    [] e.k = "ret"  ->
         LET r == Eval(prog, e.e, s) IN
         IF r.c # "ok" THEN r ELSE R("return", r.v, r.s, "", 0)
    [] e.k = "lam"  -> Ok(CloV(e.ps, e.b, s.bl, e.rt, e.line), s)
    [] e.k = "call" ->
         \* callee first, then arguments last to first (PINNED)
         LET rf == Eval(prog, e.f, s) IN
         IF rf.c # "ok" THEN rf
         ELSE LET ra == EvalItemsRev(prog, e.args, Len(e.args), rf.s, <<>>) IN
              IF ra.c # "ok" THEN ra
              ELSE CallValue(prog, rf.v, ra.v.v, e.line, ra.s)
    [] e.k = "mcall" ->
         \* receiver first, then arguments last to first (PINNED)
         LET rr == Eval(prog, e.recv, s) IN
         IF rr.c # "ok" THEN rr
         ELSE LET ra == EvalItemsRev(prog, e.args, Len(e.args), rr.s, <<>>) IN
              IF ra.c # "ok" THEN ra
              ELSE LET mi == MethIdx(prog, TypeName(rr.v), e.m) IN
                   IF mi # 0 THEN CallMethod(prog, prog.meths[mi], rr.v, ra.v.v, e.line, ra.s)
                   ELSE MethodCall(prog, e, rr.v, ra.v.v, ra.s)
    [] e.k = "match" ->
         LET r == Eval(prog, e.s, s) IN
         IF r.c # "ok" THEN r
         ELSE IF r.v.k # "Enum" THEN Err("TypeError", e.s.line, r.s)
         ELSE MatchArms(prog, e, r.v, 1, r.s)
    [] e.k = "show" ->
         \* println(string_repr(e))
         LET r == Eval(prog, e.e, s) IN
         IF r.c # "ok" THEN r
         ELSE Ok(UnitV, [r.s EXCEPT !.out = @ \o Disp(r.v) \o "\n"])
    [] e.k = "print" -> Ok(UnitV, [s EXCEPT !.out = @ \o e.v])
    [] e.k = "throw" -> Err("Thrown", e.line, s)
    [] e.k = "assert" ->
         LET r == Eval(prog, e.e, s) IN
         IF r.c # "ok" THEN r
         ELSE IF ~IsBool(r.v) THEN Err("TypeError", e.line, r.s)
         ELSE IF IsTrue(r.v) THEN Ok(UnitV, r.s)
         ELSE R("error", UnitV, r.s, "AssertionFailed", e.line)

\* Run a whole program.  The top level is one frame with one block
\* (top-level lets are its locals); a top-level `return` ends the program
\* silently (PINNED).
Run(prog, fuel) ==
  LET r == EvalSeq(prog, prog.main, 1, St(<<EmptyBlk>>, "", fuel), UnitV) IN
  [outcome |-> CASE r.c \in {"ok", "return"} -> "ok"
                 [] r.c = "error" -> IF r.ek = "AssertionFailed" THEN "assert" ELSE "exception"
                 [] r.c = "fuel" -> "fuel"
                 [] r.c = "big" -> "big"
                 [] OTHER -> "stray-" \o r.c,
   out |-> r.s.out,
   ek |-> r.ek,
   line |-> r.line,
   value |-> IF r.c \in {"ok", "return"} /\ r.v.k \notin {"Clo", "Fun"} THEN Disp(r.v) ELSE "",
   watch |-> r.s.w]
=============================================================================
