------------------------------ MODULE MC_Lexer ------------------------------
(* Enumerates source texts for the front-end checks (C01, C23) and prints   *)
(* what Lexer.tla says about each.                                          *)
(*   Mode "all"     every text over Classes of length <= MaxLen             *)
(*   Mode "file"    the texts of the ndjson file named by TEXTS ({src:[..]})*)
(*   Mode "positions" the texts of TEXTS ({id, src, ps}): every position of *)
(*                  ps is judged by PosOK against the text's table (POS     *)
(*                  lines list the indices of the inconsistent ones)        *)
(*   Mode "tokseq"  every sequence over Vocab of length 1..MaxLen (TOKSEQ   *)
(*                  lines; the lexer model is not consulted)                *)
EXTENDS Lexer, Json, IOUtils
CONSTANTS Mode, MaxLen
Texts == IF Mode \in {"file", "positions"} THEN ndJsonDeserialize(IOEnv.TEXTS) ELSE <<>>
ClassSet == {Classes[i] : i \in 1..Len(Classes)}
Vocab == {"let", "fun", "if", "else", "while", "for", "in", "match", "return", "break", "struct", "enum", "test", "import",
          "method", "external", "x", "Foo", "1", "\"s\"", "(", ")", "{", "}", "[", "]", ",", ".", ":", "::", "=>", "=", "+", "-", "<", ">", "_", "//c\n"}
VARIABLE src
Init ==
  CASE Mode = "all"    -> src \in UNION {[1..n -> ClassSet] : n \in 0..MaxLen}
    [] Mode = "file"   -> \E i \in 1..Len(Texts) : src = Texts[i].src
    [] Mode = "positions" -> src \in 1..Len(Texts)
    [] Mode = "tokseq" -> src \in UNION {[1..n -> Vocab] : n \in 1..MaxLen}
Next == UNCHANGED src
Laws == Mode \in {"tokseq", "positions"} \/ (TokensOrdered(src) /\ TableOK(src))
Emit ==
  IF Mode = "tokseq" THEN PrintT(<<"TOKSEQ", ToJson([toks |-> src])>>)
  ELSE IF Mode = "positions"
  THEN LET t == PosTable(Texts[src].src)  ps == Texts[src].ps IN
       PrintT(<<"POS", ToJson([id |-> Texts[src].id, n |-> Len(ps), bad |-> {k \in 1..Len(ps) : ~PosOK(t, ps[k])}])>>)
  ELSE LET r == Lex(src) IN
       PrintT(<<"LEX", ToJson([src |-> src, toks |-> r.toks, coms |-> r.coms, errs |-> r.errs, table |-> PosTable(src)])>>)
=============================================================================
