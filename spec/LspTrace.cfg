INIT TInit
NEXT TraceNext
CONSTRAINT Progress
INVARIANT TraceInv
POSTCONDITION Accepted
CHECK_DEADLOCK FALSE
