------------------------------ MODULE MC_Split ------------------------------
(* C11 at the level of the reference semantics: evaluating a sequence of    *)
(* top-level inputs one after the other, threading the state (definitions,  *)
(* top-level variables, output), equals evaluating them as one program, for *)
(* every split point of every program of PROGS.                             *)
EXTENDS Ref, Json, IOUtils
Progs == ndJsonDeserialize(IOEnv.PROGS)
Fuel == 300
VARIABLES pid, k
St0 == St(<<EmptyBlk>>, "", Fuel)
Whole(p) == EvalSeq(p, p.main, 1, St0, UnitV)
Split(p, j) ==
  LET r1 == EvalSeq(p, SubSeq(p.main, 1, j), 1, St0, UnitV) IN
  IF r1.c # "ok" THEN r1
  ELSE EvalSeq(p, SubSeq(p.main, j + 1, Len(p.main)), 1, r1.s, r1.v)
Init == pid \in 1..Len(Progs) /\ k \in 0..Len(Progs[pid].main)
Next == UNCHANGED <<pid, k>>
Compositional ==
  LET p == Progs[pid]  w == Whole(p)  s == Split(p, k) IN
  \/ w.c \in {"fuel", "big"}
  \/ /\ w.c = s.c
     /\ w.s.out = s.s.out
     /\ w.s.bl = s.s.bl
     /\ (w.c = "ok" => ValEq(w.v, s.v) \/ w.v.k \in {"Clo", "Fun"})
=============================================================================
