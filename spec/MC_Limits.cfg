CONSTANTS
  TickLimit = 120
  StackLimit = 6
  ProgOf <- MCProgOf
SPECIFICATION Spec
INVARIANT LimitsRespected
PROPERTY Termination
CHECK_DEADLOCK FALSE
